#!/bin/sh
# usage: build.sh <variant> <harness.c> <out> [extra flags]
# The harness TU is compiled with the force-included instrumentation header; the shim/scheduler without it.
D=$(cd "$(dirname "$0")" && pwd)
V=$1; SRC=$2; OUT=$3; shift 3
REPO=${VERIF_REPO:-/repo}
case $V in
 rel) F="-O2 -DNDEBUG -DMI_BUILD_RELEASE";;
 dbg) F="-O1 -DMI_DEBUG=3";;
 sec) F="-O2 -DNDEBUG -DMI_SECURE=4";;
 asan) F="-O1 -DNDEBUG -DMI_BUILD_RELEASE -fsanitize=address -fno-omit-frame-pointer"; L="-fsanitize=address";;
 tsan) F="-O1 -DNDEBUG -DMI_BUILD_RELEASE -DMI_TSAN=1 -fsanitize=thread -fno-omit-frame-pointer"; L="-fsanitize=thread";;
 *) echo "unknown variant $V" >&2; exit 2;;
esac
W="-Wall -Wno-unused-function -Wno-unused-variable -Wno-unknown-pragmas -Wno-format-truncation"
set -e
gcc -std=gnu11 -g -O2 -fno-tree-loop-distribute-patterns $W -I$D/engine -c $D/engine/vf_os.c -o $OUT.os.o
gcc -std=gnu11 -g -O2 $W -I$D/engine -c $D/engine/vf_sched.c -o $OUT.sched.o
gcc -std=gnu11 -g $F $W -ftls-model=initial-exec -fno-builtin-malloc -I$REPO/include -I$REPO -I$REPO/src -I$D/engine -include $D/engine/verif_pre.h -DVF_VARIANT=\"$V\" -DVF_HARNESS=\"$(basename $SRC .c)\" "$@" -c $SRC -o $OUT.o
gcc -g $L $OUT.o $OUT.os.o $OUT.sched.o -o $OUT -lpthread -rdynamic
rm -f $OUT.o $OUT.os.o $OUT.sched.o
