/* verif_pre.h -- force-included (gcc -include) in front of every translation unit that
 * #includes <repo>/src/static.c.  It instruments mimalloc WITHOUT touching /repo:
 *   - OS calls (mmap, munmap, mprotect, madvise, prctl, clock_gettime, syscall) are renamed
 *     to the shim in vf_os.c (always);
 *   - with -DVF_SCHED the C11 atomic generic macros, pthread_mutex_* and _mm_pause are
 *     redefined so that every synchronisation operation first calls vf_point()/vf_yield().
 * verif_post.h undoes the renames for the harness code that follows static.c.
 */
#ifndef VERIF_PRE_H
#define VERIF_PRE_H

#ifndef _GNU_SOURCE
#define _GNU_SOURCE 1
#endif
#ifndef _DEFAULT_SOURCE
#define _DEFAULT_SOURCE 1
#endif

/* everything whose names we are going to redefine must be included first */
#include <stddef.h>
#include <stdint.h>
#include <stdbool.h>
#include <stdatomic.h>
#include <pthread.h>
#include <emmintrin.h>
#include <sys/mman.h>
#include <linux/mman.h>
#include <sys/prctl.h>
#include <linux/prctl.h>
#include <sys/syscall.h>
#include <sys/resource.h>
#include <unistd.h>
#include <fcntl.h>
#include <stdlib.h>
#include <stdio.h>
#include <string.h>
#include <errno.h>
#include <time.h>

/* ---- OS shim (vf_os.c) ------------------------------------------------------------ */
void* vf_os_mmap(void* addr, size_t len, int prot, int flags, int fd, long off);
int   vf_os_munmap(void* addr, size_t len);
int   vf_os_mprotect(void* addr, size_t len, int prot);
int   vf_os_madvise(void* addr, size_t len, int advice);
int   vf_os_prctl(int option, ...);
int   vf_os_clock_gettime(int clk, struct timespec* ts);
long  vf_os_syscall(long nr, ...);

#define mmap           vf_os_mmap
#define munmap         vf_os_munmap
#define mprotect       vf_os_mprotect
#define madvise        vf_os_madvise
#define prctl          vf_os_prctl
#define clock_gettime  vf_os_clock_gettime
#define syscall        vf_os_syscall

/* ---- scheduling points (vf_sched.c) ----------------------------------------------- */
enum { VF_LOAD = 0, VF_STORE = 1, VF_XCHG = 2, VF_RMW = 3, VF_CAS = 4, VF_CASW = 5,
       VF_LOCK = 6, VF_TRYLOCK = 7, VF_UNLOCK = 8, VF_YIELD = 9, VF_OP = 10 };

#ifdef VF_SCHED
/* returns non-zero for a VF_CASW point when the weak CAS must fail spuriously */
int  vf_point(int kind, const volatile void* addr);
void vf_yield(void);
int  vf_mutex_lock(pthread_mutex_t* m);
int  vf_mutex_trylock(pthread_mutex_t* m);
int  vf_mutex_unlock(pthread_mutex_t* m);

#undef atomic_load_explicit
#undef atomic_store_explicit
#undef atomic_exchange_explicit
#undef atomic_compare_exchange_strong_explicit
#undef atomic_compare_exchange_weak_explicit
#undef atomic_fetch_add_explicit
#undef atomic_fetch_sub_explicit
#undef atomic_fetch_and_explicit
#undef atomic_fetch_or_explicit
#undef atomic_fetch_xor_explicit

#define atomic_load_explicit(PTR, MO) __extension__ ({ \
    __auto_type vf__p = (PTR); \
    __typeof__((void)0, *vf__p) vf__t; \
    (void)vf_point(VF_LOAD, (const volatile void*)vf__p); \
    __atomic_load(vf__p, &vf__t, (MO)); \
    vf__t; })

#define atomic_store_explicit(PTR, VAL, MO) __extension__ ({ \
    __auto_type vf__p = (PTR); \
    __typeof__((void)0, *vf__p) vf__t = (VAL); \
    (void)vf_point(VF_STORE, (const volatile void*)vf__p); \
    __atomic_store(vf__p, &vf__t, (MO)); })

#define atomic_exchange_explicit(PTR, VAL, MO) __extension__ ({ \
    __auto_type vf__p = (PTR); \
    __typeof__((void)0, *vf__p) vf__v = (VAL); \
    __typeof__((void)0, *vf__p) vf__t; \
    (void)vf_point(VF_XCHG, (const volatile void*)vf__p); \
    __atomic_exchange(vf__p, &vf__v, &vf__t, (MO)); \
    vf__t; })

#define atomic_compare_exchange_strong_explicit(PTR, EXP, DES, SUC, FAIL) __extension__ ({ \
    __auto_type vf__p = (PTR); \
    __auto_type vf__e = (EXP); \
    __typeof__((void)0, *vf__p) vf__d = (DES); \
    (void)vf_point(VF_CAS, (const volatile void*)vf__p); \
    __atomic_compare_exchange(vf__p, vf__e, &vf__d, 0, (SUC), (FAIL)); })

/* a weak CAS may fail spuriously: the scheduler decides; on a spurious failure the current
 * value is loaded into *expected (what the hardware would do) and false is returned. */
#define atomic_compare_exchange_weak_explicit(PTR, EXP, DES, SUC, FAIL) __extension__ ({ \
    __auto_type vf__p = (PTR); \
    __auto_type vf__e = (EXP); \
    __typeof__((void)0, *vf__p) vf__d = (DES); \
    _Bool vf__r; \
    if (vf_point(VF_CASW, (const volatile void*)vf__p)) { \
      __atomic_load(vf__p, vf__e, (FAIL)); vf__r = 0; \
    } else { \
      vf__r = __atomic_compare_exchange(vf__p, vf__e, &vf__d, 0, (SUC), (FAIL)); \
    } \
    vf__r; })

#define VF_RMW_OP(BUILTIN, PTR, VAL, MO) __extension__ ({ \
    __auto_type vf__p = (PTR); \
    (void)vf_point(VF_RMW, (const volatile void*)vf__p); \
    BUILTIN(vf__p, (VAL), (MO)); })
#define atomic_fetch_add_explicit(PTR, VAL, MO) VF_RMW_OP(__atomic_fetch_add, PTR, VAL, MO)
#define atomic_fetch_sub_explicit(PTR, VAL, MO) VF_RMW_OP(__atomic_fetch_sub, PTR, VAL, MO)
#define atomic_fetch_and_explicit(PTR, VAL, MO) VF_RMW_OP(__atomic_fetch_and, PTR, VAL, MO)
#define atomic_fetch_or_explicit(PTR, VAL, MO)  VF_RMW_OP(__atomic_fetch_or,  PTR, VAL, MO)
#define atomic_fetch_xor_explicit(PTR, VAL, MO) VF_RMW_OP(__atomic_fetch_xor, PTR, VAL, MO)

#define _mm_pause()              vf_yield()
#define pthread_mutex_lock(m)    vf_mutex_lock(m)
#define pthread_mutex_trylock(m) vf_mutex_trylock(m)
#define pthread_mutex_unlock(m)  vf_mutex_unlock(m)
#endif /* VF_SCHED */

#endif /* VERIF_PRE_H */
