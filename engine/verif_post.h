/* verif_post.h -- included by a harness right after <repo>/src/static.c: harness code talks to the
 * real OS and real pthread mutexes again (use __atomic_* builtins for harness-own atomics). */
#undef mmap
#undef munmap
#undef mprotect
#undef madvise
#undef prctl
#undef clock_gettime
#undef syscall
#ifdef VF_SCHED
#undef _mm_pause
#undef pthread_mutex_lock
#undef pthread_mutex_trylock
#undef pthread_mutex_unlock
#endif
