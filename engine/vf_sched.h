/* vf_sched.h -- deterministic token-passing scheduler over mimalloc's synchronisation points.
 * Real pthreads, exactly one runs at a time; vf_point() is called (through verif_pre.h, -DVF_SCHED) before every
 * C11 atomic operation, mutex operation and spin-loop yield of the code under test. */
#ifndef VF_SCHED_H
#define VF_SCHED_H
#include <stdint.h>
#include <stddef.h>

#define VF_MAX_THREADS 4
#define VF_MAX_CHOICES 2048
#define VF_TAB_BITS    16

enum { VF_ST_OK = 0, VF_ST_DEADLOCK = 1, VF_ST_LIVELOCK = 2, VF_ST_DIVERGED = 3 };

/* one execution's record, in shared memory (written by the child, read by the explorer) */
typedef struct vf_trace_s {
  volatile int n;                         /* number of recorded choice points */
  uint8_t nopts[VF_MAX_CHOICES];          /* options at the point (>= 2) */
  uint8_t chosen[VF_MAX_CHOICES];
  uint8_t flags[VF_MAX_CHOICES];          /* bit0: the running thread was enabled (switching away = preemption); bit1: last option is "weak CAS fails spuriously" */
  uint8_t who[VF_MAX_CHOICES];            /* running thread at the point (0xff: none) */
  uint8_t kind[VF_MAX_CHOICES];
  volatile long npoints;                  /* all instrumented operations executed in the explored phase */
  volatile long nshared_points;           /* those on conflict-set addresses */
  volatile int  status;                   /* VF_ST_* */
  volatile int  preemptions, spurious;
  volatile int  max_enabled;
  volatile int  overflow;                 /* more than VF_MAX_CHOICES choice points */
  volatile uint64_t outcome;              /* harness-defined hash of what the threads observed */
  volatile uint64_t sig;                  /* running hash over (thread, kind, address) of every instrumented operation: replay determinism check */
  volatile int  done;
} vf_trace_t;

/* conflict-set table, shared by all executions of one exploration */
typedef struct vf_addr_ent_s { volatile uintptr_t addr; volatile uint8_t tmask, wmask, frozen; } vf_addr_ent_t;   /* frozen: member of the conflict set used for scheduling in the current pass */
typedef struct vf_addr_tab_s {
  vf_addr_ent_t e[1 << VF_TAB_BITS];
  volatile long nentries, nshared;        /* nshared: addresses touched by >= 2 threads with >= 1 write */
} vf_addr_tab_t;

typedef struct vf_prog_s {
  int  nthreads;
  void (*setup)(int tid);       /* serial, before the explored phase (instrumentation passes through) */
  void (*run)(int tid);         /* the explored operations of thread tid */
  void (*teardown)(int tid);    /* serial, after all threads finished their explored part */
} vf_prog_t;

/* run one execution: replays `prefix`, then default choices. Returns the status. */
int  vf_sched_execute(const vf_prog_t* prog, const uint8_t* prefix, int prefix_len, int spurious_budget, vf_trace_t* trace, vf_addr_tab_t* tab, long horizon);
long vf_tab_freeze(vf_addr_tab_t* tab);              /* promote newly shared addresses into the conflict set; returns how many */
void vf_tab_add_frozen(vf_addr_tab_t* tab, uintptr_t addr);
void vf_sched_silent(const void* lo, size_t len);    /* addresses that never are scheduling points (statistics) */
int  vf_sched_tid(void);                             /* -1 outside harness threads */
int  vf_sched_exploring(void);
void vf_sched_free_run(int on);                      /* 1: no token passing at all (free-running threads, for the TSan pass) */

#endif
