/* vf_os.h -- interface of the OS shim (vf_os.c). Shared by shim, scheduler and harnesses. */
#ifndef VF_OS_H
#define VF_OS_H
#include <stddef.h>
#include <stdint.h>
#include <stdbool.h>

enum { VF_C_MMAP = 0, VF_C_MUNMAP = 1, VF_C_MPROTECT = 2, VF_C_MADVISE = 3, VF_C_NKINDS = 4 };
enum { VF_P_NONE = 0, VF_P_RW = 1 };

typedef struct vf_region_s {
  uintptr_t start, end;   /* page aligned, [start,end) */
  uint8_t   prot;         /* VF_P_NONE (reserved) or VF_P_RW (accessible) */
  uint8_t   purged;       /* contents dropped (madvise DONTNEED/FREE or PROT_NONE) and not re-committed since */
  uint8_t   adopted;      /* region handed in by the harness (mi_manage_os_memory), not mmap'ed by mimalloc */
  uint32_t  born;         /* index of the OS call that created it */
} vf_region_t;

typedef struct vf_call_s {
  uint8_t   kind;         /* VF_C_* */
  uint8_t   failed;       /* 1 if the shim refused it (fault plan) */
  int32_t   arg;          /* prot or advice */
  uintptr_t addr;
  size_t    len;
  uintptr_t res;
} vf_call_t;

#define VF_MAX_REGIONS 8192
#define VF_MAX_CALLS   16384
#define VF_MAX_FAILS   4

typedef void (*vf_os_monitor_fn)(int kind, int arg, uintptr_t addr, size_t len);

typedef struct vf_os_state_s {
  /* mapping shadow */
  vf_region_t regions[VF_MAX_REGIONS];
  int         nregions;
  /* call log */
  vf_call_t   calls[VF_MAX_CALLS];
  long        ncalls;             /* total number of counted calls (log keeps the first VF_MAX_CALLS) */
  long        nfailed;
  long        kind_count[VF_C_NKINDS];
  uint64_t    log_hash;           /* running hash over (kind,arg,addr,len,res) */
  /* fault plan */
  long        fail_at[VF_MAX_FAILS];   /* call indices that fail once; -1 = unused */
  long        fail_from;               /* every call with index >= fail_from of a kind in fail_kinds fails; -1 = off */
  unsigned    fail_kinds;              /* bit mask over VF_C_* for fail_from */
  unsigned    never_fail_kinds;        /* bit mask over VF_C_*: calls of these kinds are never refused, whatever the plan says */
  /* environment answers */
  int         reset_zero;         /* MADV_FREE: 0 = keep contents, 1 = drop contents at once */
  int         ignore_hint;        /* 1: the OS does not honour address hints: a hinted (non-fixed) mmap lands at an address of the OS' choosing, 68 KiB past a 32 MiB boundary */
  uintptr_t   hint_bump;
  int         grant_hugetlb;      /* 1: MAP_HUGETLB requests are granted (backed by ordinary untouched memory); default 0: the modelled OS has no huge pages */
  int         madv_free_einval;   /* 1: MADV_FREE is answered EINVAL (drives the documented fallback) */
  int64_t     clock_ms;           /* virtual monotonic clock */
  uint64_t    rng_seed, rng_ctr;  /* deterministic getrandom */
  /* monitor called before every purge-like call (madvise DONTNEED/FREE, mprotect NONE, munmap) */
  vf_os_monitor_fn monitor;
  /* bounds check: if set, any munmap/mprotect/madvise touching an adopted region outside is flagged */
  long        untracked_touch;    /* number of mprotect/madvise/munmap calls on memory the shim does not know */
  uintptr_t   untracked_addr;
} vf_os_state_t;

extern vf_os_state_t vf_os;

/* queries */
bool   vf_os_accessible(const void* p, size_t len);      /* every page of [p,p+len) is mapped RW */
bool   vf_os_mapped(const void* p, size_t len);          /* every page of [p,p+len) is mapped (any prot) */
size_t vf_os_mapped_bytes(void);                         /* total bytes currently mapped through the shim (not adopted) */
size_t vf_os_accessible_unpurged_bytes(uintptr_t lo, uintptr_t hi);  /* RW and not purged, inside [lo,hi) */
uint64_t vf_os_table_hash(void);
void   vf_os_adopt(void* addr, size_t len, int prot);    /* register harness-owned memory handed to mimalloc */
void   vf_os_plan_clear(void);
/* the C++ new-handler that mimalloc's C build looks up through the (weak) symbol _ZSt15get_new_handlerv: the shim defines that
   symbol strongly and returns this pointer (NULL = none installed) */
extern void (*vf_new_handler)(void);
const char* vf_os_kind_name(int kind);
void   vf_os_dump(int fd);
size_t vf_os_resident_bytes(uintptr_t lo, uintptr_t hi); /* mincore() over mapped RW regions in [lo,hi) */

/* the real calls, for harness use */
void*  vf_real_mmap(void* addr, size_t len, int prot, int flags, int fd, long off);
int    vf_real_munmap(void* addr, size_t len);

#endif
