/* vf_sched.c -- token-passing scheduler (see vf_sched.h). Compiled WITHOUT verif_pre.h. */
#define _GNU_SOURCE 1
#include "vf_sched.h"
#include <pthread.h>
#include <stdio.h>
#include <stdlib.h>
#include <string.h>
#include <unistd.h>
#include <errno.h>
#include <limits.h>
#include <sys/syscall.h>
#include <linux/futex.h>

enum { T_NEW = 0, T_RUNNABLE = 1, T_BLOCKED = 2, T_FINISHED = 3 };
enum { VF_LOAD = 0, VF_STORE = 1, VF_XCHG = 2, VF_RMW = 3, VF_CAS = 4, VF_CASW = 5, VF_LOCK = 6, VF_TRYLOCK = 7, VF_UNLOCK = 8, VF_YIELD = 9, VF_OP = 10 };

typedef struct thr_s {
  pthread_t th;
  volatile int go;          /* futex word: 1 = you may run */
  volatile int state;
  volatile int yielded;
  volatile int spins;       /* consecutive yields without any other thread taking a step */
  void* volatile blocked_on;
} thr_t;

static struct {
  volatile int exploring;
  volatile int free_run;
  int nthreads;
  thr_t t[VF_MAX_THREADS];
  volatile int ctl_go;
  const vf_prog_t* prog;
  const uint8_t* prefix; int prefix_len; int pos;
  int spurious_budget;
  vf_trace_t* tr;
  vf_addr_tab_t* tab;
  long horizon;
  struct { void* addr; int owner; } mtx[32];
  struct { uintptr_t lo, hi; } silent[8]; int nsilent;
} S;

static __thread int vf_tid = -1;

int  vf_sched_tid(void) { return vf_tid; }
int  vf_sched_exploring(void) { return S.exploring; }
void vf_sched_free_run(int on) { S.free_run = on; }
void vf_sched_silent(const void* lo, size_t len) { if (S.nsilent < 8) { S.silent[S.nsilent].lo = (uintptr_t)lo; S.silent[S.nsilent].hi = (uintptr_t)lo + len; S.nsilent++; } }

/* This TU is never compiled with -fsanitize=thread, so the hand-offs below are invisible to ThreadSanitizer; in the
 * free-running race pass (variant tsan) they are announced to it as release/acquire on the hand-off word, which makes the
 * serial set-up and tear-down phases ordered with respect to the free-running phase between them. */
__attribute__((weak)) void __tsan_acquire(void* addr);
__attribute__((weak)) void __tsan_release(void* addr);
/* (one synchronisation object per hand-off word: a single shared object would order a thread that happens to finish early
   before a thread that is woken late, and hide their races) */
static void ts_acq(volatile void* w) { if (__tsan_acquire) __tsan_acquire((void*)w); }
static void ts_rel(volatile void* w) { if (__tsan_release) __tsan_release((void*)w); }
static void fwait(volatile int* w) {
  while (__atomic_load_n(w, __ATOMIC_ACQUIRE) == 0) syscall(SYS_futex, w, FUTEX_WAIT, 0, NULL, NULL, 0);
  __atomic_store_n(w, 0, __ATOMIC_RELEASE);
  ts_acq(w);
}
static void fwake(volatile int* w) { ts_rel(w); __atomic_store_n(w, 1, __ATOMIC_RELEASE); syscall(SYS_futex, w, FUTEX_WAKE, 1, NULL, NULL, 0); }

static void sched_fatal(int status, const char* msg) {
  if (S.tr) { S.tr->status = status; S.tr->done = 1; }
  fprintf(stderr, "vf_sched: %s\n", msg);
  _exit(status == VF_ST_DIVERGED ? 96 : 90 + status);
}

/* ---------------- conflict-set table ----------------------------------------------------------- */
static vf_addr_ent_t* tab_find(vf_addr_tab_t* tab, uintptr_t addr) {
  size_t mask = ((size_t)1 << VF_TAB_BITS) - 1;
  size_t i = (size_t)((addr >> 3) * 0x9E3779B97F4A7C15ULL >> (64 - VF_TAB_BITS));
  for (size_t probes = 0; probes < 2048; probes++, i = (i + 1) & mask) {
    uintptr_t cur = __atomic_load_n(&tab->e[i].addr, __ATOMIC_ACQUIRE);
    if (cur == 0) {
      uintptr_t exp = 0;
      if (__atomic_compare_exchange_n(&tab->e[i].addr, &exp, addr, 0, __ATOMIC_ACQ_REL, __ATOMIC_ACQUIRE)) { __atomic_add_fetch(&tab->nentries, 1, __ATOMIC_RELAXED); cur = addr; }
      else cur = exp;
    }
    if (cur == addr) return &tab->e[i];
  }
  return NULL;
}
/* records the access (discoveries only take effect at the next vf_tab_freeze) and answers whether the address is in
   the conflict set of the current pass */
static int tab_access(uintptr_t addr, int tid, int is_write) {
  vf_addr_ent_t* e = tab_find(S.tab, addr);
  if (e == NULL) return 1;   /* table full: treat as shared (sound, only slower) */
  uint8_t bit = (uint8_t)(1u << tid);
  if (!(e->tmask & bit)) __atomic_or_fetch(&e->tmask, bit, __ATOMIC_RELAXED);
  if (is_write && !(e->wmask & bit)) __atomic_or_fetch(&e->wmask, bit, __ATOMIC_RELAXED);
  return e->frozen;
}
long vf_tab_freeze(vf_addr_tab_t* tab) {
  long added = 0;
  for (size_t i = 0; i < ((size_t)1 << VF_TAB_BITS); i++) {
    vf_addr_ent_t* e = &tab->e[i];
    if (e->addr != 0 && !e->frozen && __builtin_popcount(e->tmask) >= 2 && e->wmask != 0) { e->frozen = 1; added++; }
  }
  tab->nshared += added;
  return added;
}
void vf_tab_add_frozen(vf_addr_tab_t* tab, uintptr_t addr) {
  vf_addr_ent_t* e = tab_find(tab, addr);
  if (e && !e->frozen) { e->frozen = 1; e->tmask |= 3; e->wmask |= 1; tab->nshared++; }
}

/* ---------------- choices ---------------------------------------------------------------------- */
static int next_choice(int n, int cur_enabled, int has_spur, int who, int kind) {
  vf_trace_t* tr = S.tr;
  int c = 0;
  if (S.pos < S.prefix_len) {
    c = S.prefix[S.pos];
    if (c >= n) { char m[128]; snprintf(m, sizeof(m), "replay diverged at choice %d: option %d of %d", S.pos, c, n); sched_fatal(VF_ST_DIVERGED, m); }
  }
  S.pos++;
  int k = tr->n;
  if (k < VF_MAX_CHOICES) { tr->nopts[k] = (uint8_t)n; tr->chosen[k] = (uint8_t)c; tr->flags[k] = (uint8_t)((cur_enabled ? 1 : 0) | (has_spur ? 2 : 0)); tr->who[k] = (uint8_t)who; tr->kind[k] = (uint8_t)kind; tr->n = k + 1; }
  else tr->overflow = 1;
  if (n > tr->max_enabled) tr->max_enabled = n;
  return c;
}

static void switch_to(int me, int next) {
  fwake(&S.t[next].go);
  if (me >= 0) fwait(&S.t[me].go);
}

/* runnable threads other than `me`, ascending; threads that yielded are skipped unless nobody else can run */
static int others(int me, int* out) {
  int n = 0;
  for (int i = 0; i < S.nthreads; i++) if (i != me && (S.t[i].state == T_RUNNABLE || S.t[i].state == T_NEW) && !S.t[i].yielded) out[n++] = i;
  if (n == 0) for (int i = 0; i < S.nthreads; i++) if (i != me && (S.t[i].state == T_RUNNABLE || S.t[i].state == T_NEW)) { S.t[i].yielded = 0; out[n++] = i; }
  return n;
}

static int others_strict(int me, int* out) {
  int n = 0;
  for (int i = 0; i < S.nthreads; i++) if (i != me && (S.t[i].state == T_RUNNABLE || S.t[i].state == T_NEW) && !S.t[i].yielded) out[n++] = i;
  return n;
}

/* a choice point of the running thread `me` (which stays enabled). returns 1 for "weak CAS fails spuriously" */
static int choose(int me, int kind) {
  int o[VF_MAX_THREADS]; int no = others_strict(me, o);   /* threads spinning in a yield loop are not offered: they wait for us */
  int has_spur = (kind == VF_CASW && S.tr->spurious < S.spurious_budget);
  int n = 1 + no + has_spur;
  if (n == 1) return 0;
  int c = next_choice(n, 1, has_spur, me, kind);
  if (c == 0) return 0;
  if (has_spur && c == n - 1) { S.tr->spurious++; return 1; }
  S.tr->preemptions++;
  switch_to(me, o[c - 1]);
  return 0;
}

/* the running thread cannot continue (blocked, yielded or finished): pick another one; -1 if none */
static int pick_other(int me, int kind) {
  int o[VF_MAX_THREADS]; int no = others(me, o);
  if (no == 0) return -1;
  if (no == 1) return o[0];
  return o[next_choice(no, 0, 0, me, kind)];
}

/* ---------------- instrumentation entry points -------------------------------------------------- */
int vf_point(int kind, const volatile void* addr) {
  int me = vf_tid;
  if (me < 0 || !S.exploring) return 0;
  uintptr_t a = (uintptr_t)addr;
  for (int i = 0; i < S.nsilent; i++) if (a >= S.silent[i].lo && a < S.silent[i].hi) return 0;
  vf_trace_t* tr = S.tr;
  if (++tr->npoints > S.horizon) sched_fatal(VF_ST_LIVELOCK, "horizon exceeded (livelock?)");
  { uint64_t h = tr->sig; h ^= (uint64_t)a + ((uint64_t)kind << 56) + ((uint64_t)me << 60); h *= 0x100000001B3ULL; h ^= h >> 29; tr->sig = h; }
  for (int i = 0; i < S.nthreads; i++) if (i != me) { S.t[i].yielded = 0; S.t[i].spins = 0; }    /* somebody else took a step */
  int shared = tab_access(a, me, kind != VF_LOAD);
  if (!shared) return 0;
  tr->nshared_points++;
  return choose(me, kind);
}

/* a point that is a choice point whatever the conflict set says: calls that change the address space conflict with the plain
 * (uninstrumented) memory accesses of every other thread */
int vf_point_always(int kind, const volatile void* addr) {
  int me = vf_tid;
  if (me < 0 || !S.exploring) return 0;
  uintptr_t a = (uintptr_t)addr;
  vf_trace_t* tr = S.tr;
  if (++tr->npoints > S.horizon) sched_fatal(VF_ST_LIVELOCK, "horizon exceeded (livelock?)");
  { uint64_t h = tr->sig; h ^= (uint64_t)a + ((uint64_t)kind << 56) + ((uint64_t)me << 60); h *= 0x100000001B3ULL; h ^= h >> 29; tr->sig = h; }
  for (int i = 0; i < S.nthreads; i++) if (i != me) { S.t[i].yielded = 0; S.t[i].spins = 0; }
  (void)tab_access(a, me, 1);
  tr->nshared_points++;
  return choose(me, kind);
}

/* mi_atomic_yield() is a CPU pause, not a hand-over: the spinning thread may well keep running while the thread it waits
 * for is descheduled. So the first VF_FREE_SPINS consecutive yields of a thread are ordinary choice points (default:
 * keep running; switching counts as a preemption). Only after that the thread is deprioritised until somebody else has taken a step,
 * which keeps unbounded spin loops finite (fairness). _mi_page_try_use_delayed_free gives up after 4 yields, so 6 covers it. */
#define VF_FREE_SPINS 6
/* (VF_FREE_SPINS=<n> in the environment widens the window for programs whose scenario needs another thread to stay descheduled
   across more consecutive pauses of the spinning one) */
static int g_free_spins = 0;
static int free_spins(void) { if (g_free_spins == 0) { const char* e = getenv("VF_FREE_SPINS"); g_free_spins = (e && atoi(e) > 0) ? atoi(e) : VF_FREE_SPINS; } return g_free_spins; }
void vf_yield(void) {
  int me = vf_tid;
  if (me < 0 || !S.exploring) { if (S.free_run) sched_yield(); return; }
  if (++S.tr->npoints > S.horizon) sched_fatal(VF_ST_LIVELOCK, "horizon exceeded in a spin loop (livelock?)");
  int o[VF_MAX_THREADS]; int no = others_strict(me, o);
  if (no == 0) {
    /* everybody else is parked in a spin loop of its own. What they wait for may have been written by this thread through a
       plain (uninstrumented) store since they parked -- the harness' hand-over flags are such stores -- so they get to look
       again before this thread spins on (bounded by the horizon); with nobody else alive: keep spinning */
    no = others(me, o);
    if (no == 0) return;
    S.t[me].yielded = 1;
    switch_to(me, no == 1 ? o[0] : o[next_choice(no, 0, 0, me, VF_YIELD)]);
    return;
  }
  if (++S.t[me].spins <= free_spins()) {
    int c = next_choice(1 + no, 1, 0, me, VF_YIELD);     /* option 0: keep spinning; others: switching away from a runnable thread is a preemption */
    if (c == 0) return;
    S.tr->preemptions++;
    switch_to(me, o[c - 1]);
    return;
  }
  S.t[me].yielded = 1;
  int next = (no == 1 ? o[0] : o[next_choice(no, 0, 0, me, VF_YIELD)]);
  switch_to(me, next);
}

static int mtx_slot(void* m) {
  for (int i = 0; i < 32; i++) if (S.mtx[i].addr == m) return i;
  for (int i = 0; i < 32; i++) if (S.mtx[i].addr == NULL) { S.mtx[i].addr = m; S.mtx[i].owner = -1; return i; }
  sched_fatal(VF_ST_DIVERGED, "too many mutexes"); return 0;
}
int vf_mutex_lock(pthread_mutex_t* m) {
  int me = vf_tid;
  if (me < 0 || !S.exploring) return pthread_mutex_lock(m);
  tab_access((uintptr_t)m, me, 1);
  (void)choose(me, VF_LOCK);
  int s = mtx_slot(m);
  while (S.mtx[s].owner != -1) {
    S.t[me].state = T_BLOCKED; S.t[me].blocked_on = m;
    int next = pick_other(me, VF_LOCK);
    if (next < 0) sched_fatal(VF_ST_DEADLOCK, "deadlock: every thread is blocked on a lock");
    switch_to(me, next);
  }
  S.mtx[s].owner = me;
  return pthread_mutex_lock(m);
}
int vf_mutex_trylock(pthread_mutex_t* m) {
  int me = vf_tid;
  if (me < 0 || !S.exploring) return pthread_mutex_trylock(m);
  tab_access((uintptr_t)m, me, 1);
  (void)choose(me, VF_TRYLOCK);
  int s = mtx_slot(m);
  if (S.mtx[s].owner != -1) return EBUSY;
  S.mtx[s].owner = me;
  return pthread_mutex_trylock(m);
}
int vf_mutex_unlock(pthread_mutex_t* m) {
  int me = vf_tid;
  if (me < 0 || !S.exploring) return pthread_mutex_unlock(m);
  int s = mtx_slot(m);
  S.mtx[s].owner = -1;
  int r = pthread_mutex_unlock(m);
  for (int i = 0; i < S.nthreads; i++) if (S.t[i].state == T_BLOCKED && S.t[i].blocked_on == m) { S.t[i].state = T_RUNNABLE; S.t[i].blocked_on = NULL; }
  tab_access((uintptr_t)m, me, 1);
  (void)choose(me, VF_UNLOCK);
  return r;
}

/* ---------------- thread life cycle -------------------------------------------------------------- */
static void thread_finish(int me) {
  if (S.free_run) { ts_rel(&S.t[me].state); __atomic_store_n(&S.t[me].state, T_FINISHED, __ATOMIC_RELEASE); return; }
  S.t[me].state = T_FINISHED;
  int next = pick_other(me, VF_OP);
  if (next >= 0) { fwake(&S.t[next].go); return; }
  for (int i = 0; i < S.nthreads; i++) if (S.t[i].state == T_BLOCKED) sched_fatal(VF_ST_DEADLOCK, "deadlock: remaining threads are blocked on a lock");
  S.exploring = 0;
  fwake(&S.ctl_go);
}
static void* thread_main(void* arg) {
  int me = (int)(intptr_t)arg;
  vf_tid = me;
  fwait(&S.t[me].go);                       /* setup turn */
  if (S.prog->setup) S.prog->setup(me);
  fwake(&S.ctl_go);
  fwait(&S.t[me].go);                       /* first time scheduled in the explored phase */
  S.t[me].state = T_RUNNABLE;
  S.prog->run(me);
  thread_finish(me);
  fwait(&S.t[me].go);                       /* teardown turn */
  if (S.prog->teardown) S.prog->teardown(me);
  fwake(&S.ctl_go);
  fwait(&S.t[me].go);                       /* permission to return (thread-exit handlers run outside the explored phase) */
  return NULL;
}

int vf_sched_execute(const vf_prog_t* prog, const uint8_t* prefix, int prefix_len, int spurious_budget, vf_trace_t* trace, vf_addr_tab_t* tab, long horizon) {
  memset((void*)trace, 0, sizeof(*trace));
  S.prog = prog; S.nthreads = prog->nthreads; S.prefix = prefix; S.prefix_len = prefix_len; S.pos = 0;
  S.spurious_budget = spurious_budget; S.tr = trace; S.tab = tab; S.horizon = horizon;
  memset(S.mtx, 0, sizeof(S.mtx));
  for (int i = 0; i < S.nthreads; i++) { S.t[i].go = 0; S.t[i].state = T_NEW; S.t[i].yielded = 0; S.t[i].spins = 0; S.t[i].blocked_on = NULL; }
  S.ctl_go = 0;
  for (int i = 0; i < S.nthreads; i++) if (pthread_create(&S.t[i].th, NULL, thread_main, (void*)(intptr_t)i) != 0) { perror("pthread_create"); _exit(97); }
  for (int i = 0; i < S.nthreads; i++) { fwake(&S.t[i].go); fwait(&S.ctl_go); }          /* serial setup */
  if (S.free_run) {
    for (int i = 0; i < S.nthreads; i++) fwake(&S.t[i].go);                                /* all at once, no token */
    for (int i = 0; i < S.nthreads; i++) { /* each finishing thread wakes ctl once all are finished: emulate by polling */ }
    for (;;) { int all = 1; for (int i = 0; i < S.nthreads; i++) if (__atomic_load_n(&S.t[i].state, __ATOMIC_ACQUIRE) != T_FINISHED) all = 0; if (all) break; usleep(50); }
    for (int i = 0; i < S.nthreads; i++) ts_acq(&S.t[i].state);
  } else {
    S.exploring = 1;
    int first = 0;
    if (S.nthreads > 1) first = next_choice(S.nthreads, 0, 0, 0xff, VF_OP);
    fwake(&S.t[first].go);
    fwait(&S.ctl_go);
  }
  S.exploring = 0;
  for (int i = S.nthreads - 1; i >= 0; i--) { fwake(&S.t[i].go); fwait(&S.ctl_go); }     /* serial teardown, thread 0 (the owner in most harnesses) last */
  for (int i = 0; i < S.nthreads; i++) { fwake(&S.t[i].go); pthread_join(S.t[i].th, NULL); } /* return one at a time */
  trace->done = 1;
  return trace->status;
}
