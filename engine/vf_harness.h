/* vf_harness.h -- common harness runtime: shared result block, reference model + oracles,
 * allocator-state fingerprint, sequential (fork-per-node) explorer, replay files.
 * Include AFTER  #include "src/static.c"  and  #include "verif_post.h".                       */
#ifndef VF_HARNESS_H
#define VF_HARNESS_H
#ifndef VF_VARIANT
#define VF_VARIANT "rel"
#endif
#ifndef VF_HARNESS
#define VF_HARNESS "h_seq"
#endif

#include "vf_os.h"
#include <sys/mman.h>
#include <sys/wait.h>
#include <sys/time.h>
#include <semaphore.h>
#include <signal.h>
#include <stdarg.h>
#include <stdio.h>
#include <string.h>
#include <stdlib.h>
#include <errno.h>
#include <unistd.h>
#include <time.h>

/* ================================================================================================
 * shared result block (MAP_SHARED, survives forks)
 * ============================================================================================== */
#define VF_MAX_SAMPLES 8
#define VF_SAMPLE_LEN  512
#define VF_MAX_VIOL    16
#define VF_STATE_BITS  24                 /* 16M-entry open-addressing fingerprint set */

typedef struct vf_viol_s {
  char key[256];       /* stable signature (used for known-findings matching) */
  char msg[512];       /* human readable */
  char replay[256];    /* replay file path */
} vf_viol_t;

typedef struct vf_shared_s {
  volatile long nodes;            /* explorer nodes (= evaluations) */
  volatile long transitions;      /* op applications */
  volatile long states;           /* distinct fingerprints */
  volatile long pruned;
  volatile long nontrivial;       /* property specific: cases that exercised something interesting */
  volatile long checks;           /* oracle evaluations */
  volatile long counters[16];     /* property specific */
  volatile long maxdepth_seen;
  volatile int  stop;             /* set on first violation / deadline */
  volatile int  deadline_hit;
  volatile int  infra_error;
  volatile int  nviol;
  volatile int  lock;
  volatile int  nsamples;
  char samples[VF_MAX_SAMPLES][VF_SAMPLE_LEN];
  vf_viol_t viol[VF_MAX_VIOL];
  sem_t sem;
  double t_start, t_deadline;
} vf_shared_t;

static vf_shared_t* vf_sh;
static uint64_t*    vf_state_set;      /* shared open-addressing set of 64-bit fingerprints (0 = empty) */
static uint8_t*     vf_state_depth;    /* remaining depth with which the fingerprint was expanded */
static const char*  vf_prop = "C00";
static const char*  vf_outdir = "/verif";
static int          vf_verbose = 0;

static double vf_now(void) { struct timeval tv; gettimeofday(&tv, NULL); return tv.tv_sec + tv.tv_usec * 1e-6; }
static void vf_lock(void)   { while (__atomic_exchange_n(&vf_sh->lock, 1, __ATOMIC_ACQUIRE)) { usleep(1); } }
static void vf_unlock(void) { __atomic_store_n(&vf_sh->lock, 0, __ATOMIC_RELEASE); }
#define VF_INC(field) __atomic_add_fetch(&vf_sh->field, 1, __ATOMIC_RELAXED)
#define VF_ADD(field, n) __atomic_add_fetch(&vf_sh->field, (n), __ATOMIC_RELAXED)

static void vf_shared_init(double deadline_s) {
  vf_sh = (vf_shared_t*)mmap(NULL, sizeof(vf_shared_t), PROT_READ | PROT_WRITE, MAP_SHARED | MAP_ANONYMOUS, -1, 0);
  vf_state_set = (uint64_t*)mmap(NULL, sizeof(uint64_t) << VF_STATE_BITS, PROT_READ | PROT_WRITE, MAP_SHARED | MAP_ANONYMOUS | MAP_NORESERVE, -1, 0);
  vf_state_depth = (uint8_t*)mmap(NULL, (size_t)1 << VF_STATE_BITS, PROT_READ | PROT_WRITE, MAP_SHARED | MAP_ANONYMOUS | MAP_NORESERVE, -1, 0);
  if (vf_sh == MAP_FAILED || vf_state_set == MAP_FAILED || vf_state_depth == MAP_FAILED) { perror("mmap shared"); _exit(97); }
  memset(vf_sh, 0, sizeof(*vf_sh));
  sem_init(&vf_sh->sem, 1, 16);
  vf_sh->t_start = vf_now();
  vf_sh->t_deadline = vf_sh->t_start + deadline_s;
}

static void vf_sample(const char* fmt, ...) {
  if (vf_sh->nsamples >= VF_MAX_SAMPLES) return;
  vf_lock();
  if (vf_sh->nsamples < VF_MAX_SAMPLES) {
    va_list ap; va_start(ap, fmt);
    vsnprintf(vf_sh->samples[vf_sh->nsamples], VF_SAMPLE_LEN, fmt, ap);
    va_end(ap);
    vf_sh->nsamples++;
  }
  vf_unlock();
}

/* insert fingerprint; returns 1 if new. If `remaining` >= 0 also answers whether the state was already
 * expanded with at least that remaining depth (-> *covered). */
static int vf_state_insert(uint64_t fp, int remaining, int* covered) {
  if (fp == 0) fp = 1;
  size_t mask = ((size_t)1 << VF_STATE_BITS) - 1;
  size_t i = (size_t)(fp * 0x9E3779B97F4A7C15ULL >> (64 - VF_STATE_BITS));
  if (covered) *covered = 0;
  for (size_t probes = 0; probes < 4096; probes++, i = (i + 1) & mask) {
    uint64_t cur = __atomic_load_n(&vf_state_set[i], __ATOMIC_ACQUIRE);
    if (cur == 0) {
      uint64_t exp = 0;
      if (__atomic_compare_exchange_n(&vf_state_set[i], &exp, fp, 0, __ATOMIC_ACQ_REL, __ATOMIC_ACQUIRE)) {
        if (remaining >= 0) vf_state_depth[i] = (uint8_t)(remaining + 1);
        VF_INC(states);
        return 1;
      }
      cur = exp;
    }
    if (cur == fp) {
      if (remaining >= 0) {
        uint8_t d = vf_state_depth[i];
        if (d >= (uint8_t)(remaining + 1)) { if (covered) *covered = 1; }
        else vf_state_depth[i] = (uint8_t)(remaining + 1);
      }
      return 0;
    }
  }
  return 0; /* table locally full: count nothing, prune nothing */
}

/* ================================================================================================
 * operations, paths, replay files
 * ============================================================================================== */
typedef struct vf_op_s { int code; long a; long b; } vf_op_t;
#define VF_MAX_DEPTH 2048
static vf_op_t vf_path[VF_MAX_DEPTH];
static int     vf_depth;
static char    vf_cfg[256];          /* configuration tag (profile / start state / options) */

/* harness-provided */
static void vf_op_str(vf_op_t op, char* buf, size_t n);
static void (*vf_replay_extra)(FILE* f);   /* optional: extra lines for replay files (schedule explorer: conflict set) */

static void vf_path_str(char* buf, size_t n) {
  size_t at = 0; buf[0] = 0;
  for (int i = 0; i < vf_depth && at + 48 < n; i++) {
    char one[64]; vf_op_str(vf_path[i], one, sizeof(one));
    at += (size_t)snprintf(buf + at, n - at, "%s%s", i ? " " : "", one);
  }
}

static uint64_t vf_hash_str(const char* s) { uint64_t h = 1469598103934665603ULL; while (*s) { h ^= (unsigned char)*s++; h *= 1099511628211ULL; } return h; }

/* report a violation: writes a replay file, records it in the shared block, requests stop. */
static void vf_violation(const char* key, const char* fmt, ...) {
  char msg[512]; va_list ap; va_start(ap, fmt); vsnprintf(msg, sizeof(msg), fmt, ap); va_end(ap);
  vf_lock();
  int dup = 0;
  for (int i = 0; i < vf_sh->nviol; i++) if (strcmp(vf_sh->viol[i].key, key) == 0) dup = 1;
  if (!dup && vf_sh->nviol < VF_MAX_VIOL) {
    vf_viol_t* v = &vf_sh->viol[vf_sh->nviol];
    snprintf(v->key, sizeof(v->key), "%s", key);
    snprintf(v->msg, sizeof(v->msg), "%s", msg);
    char pathstr[2048]; vf_path_str(pathstr, sizeof(pathstr));
    uint64_t h = vf_hash_str(key) ^ vf_hash_str(pathstr) ^ (vf_hash_str(vf_cfg) * 3) ^ (vf_hash_str(VF_VARIANT) * 7);
    { extern char** environ; for (char** e = environ; e && *e; e++) if (strncmp(*e, "MIMALLOC_", 9) == 0 || (strncmp(*e, "VF_", 3) == 0 && strncmp(*e, "VF_NO_REEXEC", 12) != 0)) h ^= vf_hash_str(*e) * 11; }
    snprintf(v->replay, sizeof(v->replay), "%s/replays/%s-%08x.txt", vf_outdir, vf_prop, (unsigned)(h & 0xffffffffu));
    FILE* f = fopen(v->replay, "w");
    if (f) {
      fprintf(f, "# replay file for property %s\nharness %s\n%svariant %s\nkey %s\nmsg %s\ncfg %s\ndepth %d\n", vf_prop, VF_HARNESS,
#ifdef VF_SCHED
              "sched 1\n",
#else
              "",
#endif
              VF_VARIANT, key, msg, vf_cfg, vf_depth);
      { extern char** environ; for (char** e = environ; e && *e; e++) if (strncmp(*e, "MIMALLOC_", 9) == 0 || (strncmp(*e, "VF_", 3) == 0 && strncmp(*e, "VF_NO_REEXEC", 12) != 0)) fprintf(f, "env %s\n", *e); }
      if (vf_replay_extra) vf_replay_extra(f);
      for (int i = 0; i < vf_depth; i++) {
        char one[64]; vf_op_str(vf_path[i], one, sizeof(one));
        fprintf(f, "op %d %ld %ld # %s\n", vf_path[i].code, vf_path[i].a, vf_path[i].b, one);
      }
      fclose(f);
    }
    vf_sh->nviol++;
    if (vf_verbose) fprintf(stderr, "[violation] %s: %s\n  cfg=%s path=%s\n", key, msg, vf_cfg, pathstr);
  }
  vf_unlock();
}

static int vf_load_replay(const char* file) {
  FILE* f = fopen(file, "r");
  if (!f) { fprintf(stderr, "cannot open replay %s\n", file); return -1; }
  char line[1024]; vf_depth = 0;
  while (fgets(line, sizeof(line), f)) {
    if (strncmp(line, "op ", 3) == 0 && vf_depth < VF_MAX_DEPTH) {
      vf_op_t op; if (sscanf(line + 3, "%d %ld %ld", &op.code, &op.a, &op.b) == 3) vf_path[vf_depth++] = op;
    } else if (strncmp(line, "cfg ", 4) == 0) {
      snprintf(vf_cfg, sizeof(vf_cfg), "%s", line + 4); vf_cfg[strcspn(vf_cfg, "\n")] = 0;
    }
  }
  fclose(f);
  return vf_depth;
}

/* ================================================================================================
 * reference model: table of live blocks + pattern oracle
 * ============================================================================================== */
#ifndef VF_MAX_LIVE
#define VF_MAX_LIVE 4096
#endif
typedef struct vf_blk_s {
  uint8_t* p;
  size_t   req;          /* requested size */
  size_t   usable;       /* mi_usable_size at allocation time */
  size_t   wlen;         /* bytes covered by the pattern: usable (normal) or req (zero-tracked) */
  size_t   align, offset;
  int      heap;         /* harness heap index (-1 = thread default) */
  int      zero_tracked;
  uint64_t seed;
} vf_blk_t;
static vf_blk_t vf_live[VF_MAX_LIVE];
static int      vf_nlive;

static inline uint64_t vf_mix(uint64_t x) { x += 0x9E3779B97F4A7C15ULL; x = (x ^ (x >> 30)) * 0xBF58476D1CE4E5B9ULL; x = (x ^ (x >> 27)) * 0x94D049BB133111EBULL; return x ^ (x >> 31); }

#define VF_BIG (128 * 1024)
#define VF_GIANT ((size_t)256 * 1024 * 1024)    /* above this the middle part is touched once per MiB only (multi-GiB blocks stay virtual) */
#define VF_STRIDE(n) ((n) > VF_GIANT ? (size_t)512 * 256 : (size_t)512)
/* Pattern: word j (bytes 8j..8j+7) of a block is mix(seed + j).  Blocks up to 128 KiB are written and
 * checked densely.  Bigger blocks use the index set I(n) = { j < 512 } u { j = 512k } u { last 512 words }
 * (first 4 KiB, one word per 4 KiB -- every OS page is touched --, last 4 KiB; blocks above 256 MiB: one word per MiB).  `limit` restricts a check
 * to the first `limit` bytes (used for the preserved prefix after a realloc, where the layout is the OLD size). */
static void vf_pat_write(uint8_t* p, size_t n, uint64_t seed) {
  size_t w = n / 8;
  if (n <= VF_BIG) {
    for (size_t j = 0; j < w; j++) { uint64_t v = vf_mix(seed + j); memcpy(p + 8 * j, &v, 8); }
  } else {
    for (size_t j = 0; j < 512; j++) { uint64_t v = vf_mix(seed + j); memcpy(p + 8 * j, &v, 8); }
    for (size_t j = 512; j < w; j += VF_STRIDE(n)) { uint64_t v = vf_mix(seed + j); memcpy(p + 8 * j, &v, 8); }
    for (size_t j = w - 512; j < w; j++) { uint64_t v = vf_mix(seed + j); memcpy(p + 8 * j, &v, 8); }
  }
  if (n & 7) { uint64_t v = vf_mix(seed + w); memcpy(p + 8 * w, &v, n & 7); }
}
static inline long vf_pat_word_bad(const uint8_t* p, size_t j, uint64_t seed, size_t limit) {
  uint64_t v = vf_mix(seed + j);
  size_t m = (8 * j + 8 <= limit) ? 8 : (limit > 8 * j ? limit - 8 * j : 0);
  if (m == 0 || memcmp(p + 8 * j, &v, m) == 0) return -1;
  for (size_t k = 0; k < m; k++) if (((uint8_t*)&v)[k] != p[8 * j + k]) return (long)(8 * j + k);
  return -1;
}
/* returns -1 if intact, else the offset of the first wrong byte. n = layout size, limit <= n */
static long vf_pat_check_lim(const uint8_t* p, size_t n, uint64_t seed, size_t limit) {
  size_t w = n / 8; long bad;
  if (limit > n) limit = n;
  size_t wl = (limit + 7) / 8;
  if (n <= VF_BIG) {
    for (size_t j = 0; j < wl; j++) if ((bad = vf_pat_word_bad(p, j, seed, limit)) >= 0) return bad;
  } else {
    for (size_t j = 0; j < 512 && j < wl; j++) if ((bad = vf_pat_word_bad(p, j, seed, limit)) >= 0) return bad;
    for (size_t j = 512; j < w && j < wl; j += VF_STRIDE(n)) if ((bad = vf_pat_word_bad(p, j, seed, limit)) >= 0) return bad;
    for (size_t j = w - 512; j <= w && j < wl; j++) if ((bad = vf_pat_word_bad(p, j, seed, limit)) >= 0) return bad;
  }
  return -1;
}
static long vf_pat_check(const uint8_t* p, size_t n, uint64_t seed) { return vf_pat_check_lim(p, n, seed, n); }

/* oracle for a fresh allocation; registers it. Returns index or -1 (violation reported). */
static int vf_model_alloc(void* ptr, size_t req, size_t align, size_t offset, int heap, int zero_tracked, const char* what) {
  uint8_t* p = (uint8_t*)ptr;
  VF_INC(checks);
  if (p == NULL) { vf_violation("null-result", "%s(%zu) returned NULL although the OS refused nothing", what, req); return -1; }
  size_t usable = mi_usable_size(p);
  if (usable < req) { vf_violation("usable-too-small", "%s(%zu): mi_usable_size=%zu < requested", what, req, usable); return -1; }
  if (align > 0 && (((uintptr_t)p + offset) % align) != 0) { vf_violation("misaligned", "%s(%zu, align=%zu, offset=%zu) = %p is not aligned", what, req, align, offset, p); return -1; }
  size_t nat = (req >= 16 ? 16 : 8);
  if (align == 0 && ((uintptr_t)p % nat) != 0) { vf_violation("natural-misaligned", "%s(%zu) = %p not %zu-aligned", what, req, p, nat); return -1; }
  size_t span = usable ? usable : 1;
  for (int i = 0; i < vf_nlive; i++) {
    const vf_blk_t* b = &vf_live[i];
    size_t bs = b->usable ? b->usable : 1;
    if (p < b->p + bs && b->p < p + span) {
      vf_violation("overlap", "%s(%zu) = [%p,+%zu) overlaps live block #%d [%p,+%zu) (req %zu)", what, req, p, usable, i, b->p, b->usable, b->req);
      return -1;
    }
  }
  if (!vf_os_accessible(p, span)) { vf_violation("inaccessible", "%s(%zu) = [%p,+%zu) is not inside accessible (committed RW) memory", what, req, p, usable); return -1; }
  if (vf_nlive >= VF_MAX_LIVE) { vf_sh->infra_error = 1; fprintf(stderr, "model table full\n"); return -1; }
  vf_blk_t* b = &vf_live[vf_nlive];
  b->p = p; b->req = req; b->usable = usable; b->align = align; b->offset = offset; b->heap = heap; b->zero_tracked = zero_tracked;
  b->wlen = zero_tracked ? req : usable;
  if (zero_tracked) {
    for (size_t i = 0; i < req; i++) if (p[i] != 0) { vf_violation("not-zero", "%s(%zu) = %p: byte %zu is 0x%02x, expected 0", what, req, p, i, p[i]); return -1; }
  }
  b->seed = vf_mix((uintptr_t)p ^ (req * 0x100000001B3ULL));   /* pure function of (p, req): keeps fingerprints canonical */
  vf_pat_write(p, b->wlen, b->seed);
  return vf_nlive++;
}
static int vf_model_check_one(int i, const char* when) {
  const vf_blk_t* b = &vf_live[i];
  VF_INC(checks);
  long bad = vf_pat_check(b->p, b->wlen, b->seed);
  if (bad >= 0) {
    vf_violation("contents-changed", "%s: live block #%d %p (req %zu, usable %zu) changed at offset %ld (0x%02x)", when, i, b->p, b->req, b->usable, bad, b->p[bad]);
    return -1;
  }
  /* what the allocator reports as usable for a live block never changes while the program leaves that block alone */
  size_t u = mi_usable_size(b->p);
  if (u != b->usable) { vf_violation("usable-changed", "%s: mi_usable_size of live block #%d %p (req %zu, alignment %zu) changed from %zu to %zu although the block was not touched", when, i, b->p, b->req, b->align, b->usable, u); return -1; }
  return 0;
}
static int vf_model_check_all(const char* when) {
  for (int i = 0; i < vf_nlive; i++) if (vf_model_check_one(i, when) != 0) return -1;
  return 0;
}
static void vf_model_remove(int i) { vf_live[i] = vf_live[vf_nlive - 1]; vf_nlive--; }
/* order-preserving removal keeps "free(i)" indices stable for replay readability */
static void vf_model_remove_ordered(int i) { memmove(&vf_live[i], &vf_live[i + 1], (size_t)(vf_nlive - i - 1) * sizeof(vf_blk_t)); vf_nlive--; }

/* ================================================================================================
 * allocator-state fingerprint (raw metadata bytes; addresses are canonical within one process tree)
 * ============================================================================================== */
static uint64_t vf_fp_h;
static inline void vf_fp_word(uint64_t w) { vf_fp_h ^= w; vf_fp_h *= 0x100000001B3ULL; vf_fp_h ^= vf_fp_h >> 32; }
static void vf_fp_bytes(const void* p, size_t n) {
  const uint8_t* b = (const uint8_t*)p; size_t i = 0;
  for (; i + 8 <= n; i += 8) { uint64_t w; memcpy(&w, b + i, 8); vf_fp_word(w); }
  if (i < n) { uint64_t w = 0; memcpy(&w, b + i, n - i); vf_fp_word(w); }
}
static void vf_fp_list(const mi_page_t* page, mi_block_t* head) {
  size_t guard = 0;
  /* raw decoding (no corruption report: the observer must not trigger mimalloc's error path); stop at a link that leaves the page */
  for (mi_block_t* b = head; b != NULL && guard < 70000; guard++) {
    vf_fp_word((uintptr_t)b);
#if (MI_ENCODE_FREELIST || MI_PADDING)
    mi_block_t* nx = mi_block_nextx(page, b, page->keys);
#else
    mi_block_t* nx = mi_block_nextx(page, b, NULL);
#endif
    if (nx != NULL && !mi_is_in_same_page(b, nx)) { vf_fp_word(0xBADBAD); break; }
    b = nx;
  }
  vf_fp_word(0xE0E0);
}
static void vf_fp_segment(const mi_segment_t* seg) {
  vf_fp_bytes(seg, offsetof(mi_segment_t, slices));
  vf_fp_bytes(seg->slices, (seg->slice_entries + 1) * sizeof(mi_slice_t));
  const mi_slice_t* end = &seg->slices[seg->slice_entries];
  const mi_slice_t* s = &seg->slices[0];
  while (s < end && s->slice_count > 0) {
    if (s->block_size > 1) {   /* a used page */
      const mi_page_t* page = (const mi_page_t*)s;
      vf_fp_list(page, page->free); vf_fp_list(page, page->local_free); vf_fp_list(page, mi_page_thread_free(page));
    }
    s += s->slice_count;
  }
}
/* fingerprint of everything that can influence the current thread's allocator control flow */
static uint64_t vf_fingerprint(void) {
  vf_fp_h = 0xcbf29ce484222325ULL;
  mi_heap_t* def = mi_prim_get_default_heap();
  vf_fp_word((uintptr_t)def);
  if (def != NULL && def != (mi_heap_t*)&_mi_heap_empty && def->tld != NULL) {
    mi_tld_t* tld = def->tld;
    vf_fp_bytes(tld, offsetof(mi_tld_t, stats));
    const mi_segment_t* seen[256]; int nseen = 0;
    for (mi_heap_t* h = tld->heaps; h != NULL; h = h->next) {
      vf_fp_bytes(h, sizeof(mi_heap_t));
      mi_block_t* d = mi_atomic_load_ptr_relaxed(mi_block_t, &h->thread_delayed_free);
      size_t guard = 0;
      while (d != NULL && guard++ < 70000) { vf_fp_word((uintptr_t)d); d = mi_block_nextx(h, d, h->keys); }
      for (size_t bin = 0; bin <= MI_BIN_FULL; bin++) {
        for (mi_page_t* pg = h->pages[bin].first; pg != NULL; pg = pg->next) {
          const mi_segment_t* seg = _mi_page_segment(pg);
          int k; for (k = 0; k < nseen; k++) if (seen[k] == seg) break;
          if (k == nseen && nseen < 256) { seen[nseen++] = seg; vf_fp_segment(seg); }
        }
      }
    }
  }
  size_t na = mi_atomic_load_relaxed(&mi_arena_count);
  vf_fp_word(na);
  for (size_t i = 0; i < na; i++) {
    mi_arena_t* a = mi_atomic_load_ptr_relaxed(mi_arena_t, &mi_arenas[i]);
    if (a != NULL) vf_fp_bytes(a, a->meta_size);
  }
  vf_fp_word((uint64_t)mi_atomic_loadi64_relaxed(&mi_arenas_purge_expire));
  vf_fp_word(vf_os_table_hash());
  for (int i = 0; i < vf_nlive; i++) { vf_fp_word((uintptr_t)vf_live[i].p); vf_fp_word(vf_live[i].req); vf_fp_word((uint64_t)vf_live[i].heap + 7); }
  return vf_fp_h;
}

/* ================================================================================================
 * sequential explorer: every operation sequence up to depth D; one forked process per node
 * ============================================================================================== */
/* harness-provided */
static int  vf_list_ops(vf_op_t* out, int max);       /* enabled operations in the current state, simplest first */
static int  vf_apply(vf_op_t op);                      /* 0 ok; !=0: violation already reported */
static int  vf_check_node(void);                       /* node oracle; 0 ok */

typedef struct vf_seq_cfg_s { int maxdepth; int pardepth; int prune; } vf_seq_cfg_t;
static int vf_gate_held;     /* this process holds a slot of the parallelism semaphore */
/* end the current branch from inside an operation (e.g. from an error callback) without leaking the slot */
static void vf_exit_branch(void) { if (vf_gate_held) { vf_gate_held = 0; sem_post(&vf_sh->sem); } _exit(0); }
static vf_seq_cfg_t vf_seq = { 5, 2, 0 };

#ifndef VF_STEP_ALARM_S
#define VF_STEP_ALARM_S 120     /* one step = one operation plus the check of the state it leads to: an allocator that loops forever is a violation, not a stuck check */
#endif
static void vf_child_died(int status, vf_op_t op) {
  /* a child ending by signal or unexpected exit code: secondary oracle "crash" */
  char one[64]; vf_op_str(op, one, sizeof(one));
  vf_path[vf_depth] = op; vf_depth++;
  if (WIFSIGNALED(status) && WTERMSIG(status) == SIGALRM) vf_violation("hang", "applying %s (and checking the resulting state) did not finish within %d s", one, VF_STEP_ALARM_S);
  else if (WIFSIGNALED(status)) vf_violation("crash", "process died with signal %d while applying %s", WTERMSIG(status), one);
  else vf_violation("abort", "process exited with status %d while applying %s", WEXITSTATUS(status), one);
  vf_depth--;
}

static void vf_seq_node(void) {
  long n = VF_INC(nodes);
  if (vf_depth > vf_sh->maxdepth_seen) vf_sh->maxdepth_seen = vf_depth;
  if ((n & 1023) == 0 && vf_now() > vf_sh->t_deadline) { vf_sh->deadline_hit = 1; vf_sh->stop = 1; }
  if (vf_sh->stop) return;
  if (vf_check_node() != 0) { vf_sh->stop = 1; return; }
  alarm(0);                                  /* (armed before the operation was applied: one step = operation + state check) */
  int remaining = vf_seq.maxdepth - vf_depth;
  int covered = 0;
  vf_state_insert(vf_fingerprint(), vf_seq.prune ? remaining : -1, &covered);
  if (remaining <= 0) return;
  if (vf_seq.prune && covered) { VF_INC(pruned); return; }
  vf_op_t ops[256];
  int nops = vf_list_ops(ops, 256);
  int parallel = (vf_depth < vf_seq.pardepth);
  pid_t pids[256];
  for (int i = 0; i < nops && !vf_sh->stop; i++) {
    pid_t pid = fork();
    if (pid < 0) { perror("fork"); vf_sh->infra_error = 1; vf_sh->stop = 1; break; }
    if (pid == 0) {
      int gate = (vf_depth + 1 == vf_seq.pardepth);
      vf_gate_held = 0;
      if (gate) { sem_wait(&vf_sh->sem); vf_gate_held = 1; }
      vf_path[vf_depth] = ops[i]; vf_depth++;
      VF_INC(transitions);
      if (vf_sh->nsamples < VF_MAX_SAMPLES && vf_depth == vf_seq.maxdepth) { char ps[1024]; vf_path_str(ps, sizeof(ps)); vf_sample("[%s] %s", vf_cfg, ps); }
      alarm(VF_STEP_ALARM_S);
      if (vf_apply(ops[i]) != 0) vf_sh->stop = 1; else vf_seq_node();
      alarm(0);
      if (gate) { sem_post(&vf_sh->sem); vf_gate_held = 0; }
      _exit(0);
    }
    pids[i] = pid;
    if (!parallel) {
      int st = 0; waitpid(pid, &st, 0);
      if (!(WIFEXITED(st) && WEXITSTATUS(st) == 0)) { vf_child_died(st, ops[i]); vf_sh->stop = 1; if (vf_depth + 1 == vf_seq.pardepth) sem_post(&vf_sh->sem); }
      pids[i] = 0;
    }
  }
  if (parallel) {
    for (int i = 0; i < nops; i++) if (pids[i] > 0) {
      int st = 0; if (waitpid(pids[i], &st, 0) < 0) continue;
      if (!(WIFEXITED(st) && WEXITSTATUS(st) == 0)) { vf_child_died(st, ops[i]); vf_sh->stop = 1; if (vf_depth + 1 == vf_seq.pardepth) sem_post(&vf_sh->sem); }
    }
  }
}

/* replay a loaded path in this process (no explorer): returns 0 if no violation */
static int vf_seq_replay(void) {
  int n = vf_depth; vf_depth = 0;
  if (vf_check_node() != 0) return 1;
  for (int i = 0; i < n; i++) {
    vf_depth = i + 1;
    if (vf_apply(vf_path[i]) != 0) return 1;
    if (vf_check_node() != 0) return 1;
  }
  return 0;
}

/* ================================================================================================
 * result output (JSON fragment consumed by ./check)
 * ============================================================================================== */
static void vf_json_str(FILE* f, const char* s) {
  fputc('"', f);
  for (; *s; s++) { unsigned char c = (unsigned char)*s; if (c == '"' || c == '\\') { fputc('\\', f); fputc(c, f); } else if (c < 32) fprintf(f, "\\u%04x", c); else fputc(c, f); }
  fputc('"', f);
}
static void vf_write_result(const char* path, const char* extra_json /* may be NULL: additional "k":v pairs */) {
  FILE* f = fopen(path, "w");
  if (!f) { perror(path); return; }
  fprintf(f, "{\"property\":\"%s\",\"nodes\":%ld,\"transitions\":%ld,\"states\":%ld,\"pruned\":%ld,\"nontrivial\":%ld,\"checks\":%ld,\"maxdepth_seen\":%ld,",
          vf_prop, vf_sh->nodes, vf_sh->transitions, vf_sh->states, vf_sh->pruned, vf_sh->nontrivial, vf_sh->checks, vf_sh->maxdepth_seen);
  fprintf(f, "\"counters\":[");
  for (int i = 0; i < 16; i++) fprintf(f, "%s%ld", i ? "," : "", vf_sh->counters[i]);
  fprintf(f, "],\"deadline_hit\":%d,\"infra_error\":%d,\"wall_s\":%.3f,", vf_sh->deadline_hit, vf_sh->infra_error, vf_now() - vf_sh->t_start);
  if (extra_json && *extra_json) fprintf(f, "%s,", extra_json);
  fprintf(f, "\"samples\":[");
  for (int i = 0; i < vf_sh->nsamples; i++) { if (i) fputc(',', f); vf_json_str(f, vf_sh->samples[i]); }
  fprintf(f, "],\"violations\":[");
  for (int i = 0; i < vf_sh->nviol; i++) {
    if (i) fputc(',', f);
    fprintf(f, "{\"key\":"); vf_json_str(f, vf_sh->viol[i].key);
    fprintf(f, ",\"msg\":"); vf_json_str(f, vf_sh->viol[i].msg);
    fprintf(f, ",\"replay\":"); vf_json_str(f, vf_sh->viol[i].replay);
    fprintf(f, "}");
  }
  fprintf(f, "]}\n");
  fclose(f);
}

/* error callback: collects mimalloc error codes (secondary oracle) */
static volatile int vf_err_count, vf_err_last;
static void (*vf_error_hook)(int err);
static void vf_error_cb(int err, void* arg) { (void)arg; vf_err_count++; vf_err_last = err; if (vf_error_hook) vf_error_hook(err); }

/* silence mimalloc's own output unless verbose */
static void vf_out_null(const char* msg, void* arg) { (void)msg; (void)arg; }

#include <execinfo.h>
static void vf_crash_handler(int sig) {
  void* bt[48]; int n = backtrace(bt, 48);
  fprintf(stderr, "vf: fatal signal %d; backtrace:\n", sig);
  backtrace_symbols_fd(bt, n, 2);
  vf_os_dump(2);
  signal(sig, SIG_DFL); raise(sig);
}
static void vf_install_crash_handler(void) { signal(SIGSEGV, vf_crash_handler); signal(SIGBUS, vf_crash_handler); signal(SIGABRT, vf_crash_handler); }

static const char* vf_arg(int argc, char** argv, const char* name, const char* def) {
  for (int i = 1; i + 1 < argc; i++) if (strcmp(argv[i], name) == 0) return argv[i + 1];
  return def;
}
static int vf_flag(int argc, char** argv, const char* name) {
  for (int i = 1; i < argc; i++) if (strcmp(argv[i], name) == 0) return 1;
  return 0;
}

#endif /* VF_HARNESS_H */
