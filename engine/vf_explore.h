/* vf_explore.h -- preemption-bounded exhaustive exploration of thread interleavings (CHESS-style iterative context
 * bounding) on top of vf_sched.c. Include after vf_harness.h. Every execution is a forked child (fresh allocator). */
#ifndef VF_EXPLORE_H
#define VF_EXPLORE_H
#include "vf_sched.h"

typedef struct vf_xcfg_s {
  int bound;            /* max preemption bound to complete (0,1,..,bound are explored in order) */
  int sbound;           /* spurious weak-CAS failures per execution */
  int npar;             /* concurrent executions */
  long horizon;         /* instrumented operations per execution before it is called a livelock */
  void (*before)(void); /* in the child, before threads exist */
  void (*after)(vf_trace_t* tr);  /* in the child, after teardown: quiescent oracle; may set tr->outcome */
} vf_xcfg_t;

typedef struct vf_xstats_s {
  long executions, choice_points, points, shared_points, rounds, max_choices;
  int  bound_completed; int max_enabled; long conflict_addrs; long distinct_outcomes;
  long preempted_execs; long spurious_execs; long overflowed;
} vf_xstats_t;

static vf_addr_tab_t* vf_xtab;
static vf_trace_t*    vf_xslots;        /* npar trace slots in shared memory */
static uint64_t       vf_xoutcomes[8192]; static int vf_xnout;
static vf_trace_t*    vf_cur_trace;     /* in the child: its trace (for violation reporting) */

/* in the child: copy the choices made so far into vf_path so that vf_violation writes a schedule replay */
static void vf_sync_path(void) {
  if (!vf_cur_trace) return;
  int n = vf_cur_trace->n; if (n > VF_MAX_DEPTH) n = VF_MAX_DEPTH;
  for (int i = 0; i < n; i++) { vf_path[i].code = 2; vf_path[i].a = vf_cur_trace->chosen[i]; vf_path[i].b = vf_cur_trace->who[i]; }
  vf_depth = n;
}
#define SVIOL(key, ...) do { vf_sync_path(); vf_violation(key, __VA_ARGS__); } while (0)
/* replay files carry the conflict set of the pass: it decides which operations are choice points */
static void vf_dump_conflict_set(FILE* f) {
  if (!vf_xtab) return;
  for (size_t i = 0; i < ((size_t)1 << VF_TAB_BITS); i++) if (vf_xtab->e[i].addr != 0 && vf_xtab->e[i].frozen) fprintf(f, "saddr %lx\n", (unsigned long)vf_xtab->e[i].addr);
}
static void vf_load_conflict_set(const char* file) {
  if (!vf_xtab) {
    vf_xtab = (vf_addr_tab_t*)mmap(NULL, sizeof(vf_addr_tab_t), PROT_READ | PROT_WRITE, MAP_SHARED | MAP_ANONYMOUS, -1, 0);
    vf_xslots = (vf_trace_t*)mmap(NULL, sizeof(vf_trace_t) * 64, PROT_READ | PROT_WRITE, MAP_SHARED | MAP_ANONYMOUS, -1, 0);
  }
  FILE* f = fopen(file, "r"); if (!f) return;
  char line[256]; while (fgets(line, sizeof(line), f)) if (strncmp(line, "saddr ", 6) == 0) vf_tab_add_frozen(vf_xtab, (uintptr_t)strtoul(line + 6, NULL, 16));
  fclose(f);
}

typedef struct vf_pfx_s { int len; int pre; int spur; uint8_t* c; } vf_pfx_t;
static vf_pfx_t* vf_stack; static long vf_sp, vf_scap;
static void vf_push(const uint8_t* c, int len, int lastalt, int pre, int spur) {
  if (vf_sp == vf_scap) { vf_scap = vf_scap ? vf_scap * 2 : 4096; vf_stack = (vf_pfx_t*)realloc(vf_stack, (size_t)vf_scap * sizeof(vf_pfx_t)); }
  vf_pfx_t* p = &vf_stack[vf_sp++];
  p->len = len + 1; p->pre = pre; p->spur = spur; p->c = (uint8_t*)malloc((size_t)len + 1);
  memcpy(p->c, c, (size_t)len); p->c[len] = (uint8_t)lastalt;
}

static void vf_child_exec(const vf_prog_t* prog, const vf_xcfg_t* cfg, const uint8_t* prefix, int plen, vf_trace_t* tr) {
  vf_cur_trace = tr;
  alarm(60);
  if (cfg->before) cfg->before();
  int st = vf_sched_execute(prog, prefix, plen, cfg->sbound, tr, vf_xtab, cfg->horizon);
  (void)st;
  if (cfg->after) cfg->after(tr);
  alarm(0);
}

/* expand the alternatives of one finished execution */
static void vf_expand(const vf_trace_t* tr, int plen, int bound, int sbound) {
  int pre = 0, spur = 0;
  int n = tr->n;
  for (int i = 0; i < n; i++) {
    int no = tr->nopts[i], ch = tr->chosen[i], fl = tr->flags[i];
    if (i >= plen) {
      for (int alt = 0; alt < no; alt++) {
        if (alt == ch) continue;
        int is_spur = ((fl & 2) && alt == no - 1);
        if (is_spur) { if (spur < sbound) vf_push(tr->chosen, i, alt, pre, spur + 1); }
        else { int cost = ((fl & 1) && alt != 0) ? 1 : 0; if (pre + cost <= bound) vf_push(tr->chosen, i, alt, pre + cost, spur); }
      }
    }
    int chose_spur = ((fl & 2) && ch == no - 1);
    if (chose_spur) spur++; else if ((fl & 1) && ch != 0) pre++;
  }
}

static void vf_note_outcome(uint64_t o) {
  for (int i = 0; i < vf_xnout; i++) if (vf_xoutcomes[i] == o) return;
  if (vf_xnout < 8192) vf_xoutcomes[vf_xnout++] = o;
}

/* one complete pass at a fixed bound. returns 0 ok, 1 violation found, 2 infra */
static int vf_explore_pass(const vf_prog_t* prog, const vf_xcfg_t* cfg, int bound, vf_xstats_t* st) {
  vf_sp = 0;
  vf_push((const uint8_t*)"", 0, 0, 0, 0); vf_stack[0].len = 0;   /* the empty prefix */
  pid_t pids[64]; int busy[64]; vf_pfx_t cur[64];
  int npar = cfg->npar > 64 ? 64 : cfg->npar;
  memset(busy, 0, sizeof(busy));
  int running = 0;
  while ((vf_sp > 0 || running > 0)) {
    while (vf_sp > 0 && running < npar && !vf_sh->stop) {
      int s; for (s = 0; s < npar; s++) if (!busy[s]) break;
      vf_pfx_t p = vf_stack[--vf_sp];
      pid_t pid = fork();
      if (pid < 0) { perror("fork"); return 2; }
      if (pid == 0) { vf_child_exec(prog, cfg, p.c, p.len, &vf_xslots[s]); _exit(0); }
      pids[s] = pid; busy[s] = 1; cur[s] = p; running++;
    }
    if (running == 0) break;
    int status = 0; pid_t w = wait(&status);
    if (w < 0) break;
    int s; for (s = 0; s < npar; s++) if (busy[s] && pids[s] == w) break;
    if (s == npar) continue;
    busy[s] = 0; running--;
    vf_trace_t* tr = &vf_xslots[s];
    st->executions++; VF_INC(nodes);
    st->choice_points += tr->n; st->points += tr->npoints; st->shared_points += tr->nshared_points;
    VF_ADD(transitions, tr->n);
    if (tr->n > st->max_choices) st->max_choices = tr->n;
    if (tr->max_enabled > st->max_enabled) st->max_enabled = tr->max_enabled;
    if (tr->preemptions > 0) st->preempted_execs++;
    if (tr->spurious > 0) st->spurious_execs++;
    if (tr->overflow) st->overflowed++;
    int ok = (WIFEXITED(status) && WEXITSTATUS(status) == 0);
    if (!ok) {
      /* reconstruct the schedule for the replay file */
      int n = tr->n; if (n > VF_MAX_DEPTH) n = VF_MAX_DEPTH;
      for (int i = 0; i < n; i++) { vf_path[i].code = 2; vf_path[i].a = tr->chosen[i]; vf_path[i].b = tr->who[i]; }
      vf_depth = n;
      if (WIFEXITED(status) && WEXITSTATUS(status) == 96) { fprintf(stderr, "replay of a prefix diverged\n"); vf_sh->infra_error = 1; return 2; }
      if (WIFEXITED(status) && WEXITSTATUS(status) == 90 + VF_ST_DEADLOCK) vf_violation("deadlock", "no enabled thread: every remaining thread waits for a lock (schedule of %d choices)", tr->n);
      else if (WIFEXITED(status) && WEXITSTATUS(status) == 90 + VF_ST_LIVELOCK) vf_violation("livelock", "execution exceeded %ld instrumented operations: threads only spin (schedule of %d choices)", cfg->horizon, tr->n);
      else if (WIFSIGNALED(status) && WTERMSIG(status) == SIGALRM) vf_violation("hang", "execution did not finish within 60 s (schedule of %d choices)", tr->n);
      else if (WIFSIGNALED(status)) vf_violation("crash", "execution died with signal %d (schedule of %d choices, %d preemptions)", WTERMSIG(status), tr->n, tr->preemptions);
      else vf_violation("abort", "execution exited with status %d (schedule of %d choices)", WEXITSTATUS(status), tr->n);
      vf_sh->stop = 1;
    } else {
      vf_note_outcome(tr->outcome);
      if (vf_sh->nsamples < 3 && tr->preemptions == bound) {
        char b[400]; int at = 0; for (int i = 0; i < tr->n && at < 380; i++) at += snprintf(b + at, sizeof(b) - (size_t)at, "%d", tr->chosen[i]);
        vf_sample("[%s] schedule (choice per point, %d points, %d preemptions, %d spurious CAS failures): %s", vf_cfg, tr->n, tr->preemptions, tr->spurious, b);
      }
      if (!vf_sh->stop) vf_expand(tr, cur[s].len, bound, cfg->sbound);
    }
    free(cur[s].c);
    if (vf_sh->nviol > 0) vf_sh->stop = 1;
    if ((st->executions & 255) == 0 && vf_now() > vf_sh->t_deadline) { vf_sh->deadline_hit = 1; vf_sh->stop = 1; }
  }
  while (vf_sp > 0) free(vf_stack[--vf_sp].c);
  return vf_sh->nviol > 0 ? 1 : (vf_sh->deadline_hit ? 3 : 0);
}

/* iterative context bounding with conflict-set fixpoint. returns 0 ok, 1 violation, 2 infra */
static int vf_explore(const vf_prog_t* prog, const vf_xcfg_t* cfg, vf_xstats_t* st) {
  memset(st, 0, sizeof(*st)); st->bound_completed = -1; vf_xnout = 0;
  if (!vf_xtab) {
    vf_xtab = (vf_addr_tab_t*)mmap(NULL, sizeof(vf_addr_tab_t), PROT_READ | PROT_WRITE, MAP_SHARED | MAP_ANONYMOUS, -1, 0);
    vf_xslots = (vf_trace_t*)mmap(NULL, sizeof(vf_trace_t) * 64, PROT_READ | PROT_WRITE, MAP_SHARED | MAP_ANONYMOUS, -1, 0);
  }
  memset(vf_xtab, 0, sizeof(*vf_xtab));
  /* determinism self-check: the default schedule run twice must give identical operation signatures */
  {
    uint64_t sig[2] = { 0, 1 }; int nn[2] = { 0, 1 };
    for (int r = 0; r < 2; r++) {
      pid_t pid = fork();
      if (pid == 0) { vf_child_exec(prog, cfg, (const uint8_t*)"", 0, &vf_xslots[0]); _exit(0); }
      int status = 0; waitpid(pid, &status, 0);
      if (!(WIFEXITED(status) && WEXITSTATUS(status) == 0)) { sig[0] = sig[1]; nn[0] = nn[1]; break; }   /* the passes below report it properly */
      sig[r] = vf_xslots[0].sig; nn[r] = vf_xslots[0].n;
    }
    if (sig[0] != sig[1] || nn[0] != nn[1]) { fprintf(stderr, "nondeterministic execution: operation signatures differ between two runs of the same schedule\n"); vf_sh->infra_error = 1; return 2; }
    VF_INC(counters[14]);
  }
  for (int b = 0; b <= cfg->bound; b++) {
    for (int round = 0; round < 12; round++) {
      st->rounds++;
      int r = vf_explore_pass(prog, cfg, b, st);
      if (r == 1 || r == 2) { st->conflict_addrs = vf_xtab->nshared; return r; }
      if (r == 3) { st->conflict_addrs = vf_xtab->nshared; return 0; }   /* deadline: bound b not completed */
      long added = vf_tab_freeze(vf_xtab);        /* addresses that turned out to be shared-with-write during this pass */
      st->conflict_addrs = vf_xtab->nshared;
      if (added == 0) break;                      /* conflict set was complete for every execution of the pass: the pass is sound */
    }
    st->bound_completed = b;
  }
  st->distinct_outcomes = vf_xnout;
  return 0;
}

/* replay one recorded schedule (loaded into vf_path) twice; both runs must produce the same operation signature */
static int vf_replay_schedule(const vf_prog_t* prog, const vf_xcfg_t* cfg) {
  static uint8_t pre[VF_MAX_DEPTH]; int n = vf_depth;
  for (int i = 0; i < n; i++) pre[i] = (uint8_t)vf_path[i].a;
  if (!vf_xtab) {
    vf_xtab = (vf_addr_tab_t*)mmap(NULL, sizeof(vf_addr_tab_t), PROT_READ | PROT_WRITE, MAP_SHARED | MAP_ANONYMOUS, -1, 0);
    vf_xslots = (vf_trace_t*)mmap(NULL, sizeof(vf_trace_t) * 64, PROT_READ | PROT_WRITE, MAP_SHARED | MAP_ANONYMOUS, -1, 0);
  }
  /* the conflict set of the recorded pass was restored from the replay file (saddr lines) by the caller */
  int bad = 0; uint64_t sig[2] = { 0, 0 };
  for (int r = 0; r < 2; r++) {
    pid_t pid = fork();
    if (pid == 0) { vf_child_exec(prog, cfg, pre, n, &vf_xslots[0]); _exit(0); }
    int status = 0; waitpid(pid, &status, 0);
    sig[r] = vf_xslots[0].sig;
    if (WIFEXITED(status) && WEXITSTATUS(status) == 96) { printf("REPLAY diverged\n"); return 2; }
    if (!(WIFEXITED(status) && WEXITSTATUS(status) == 0)) { bad = 1; if (vf_sh->nviol == 0) { vf_depth = n; vf_violation("crash", "replayed schedule died (status 0x%x)", status); } }
  }
  if (sig[0] != sig[1]) { printf("REPLAY nondeterministic\n"); return 2; }
  return bad || vf_sh->nviol > 0;
}
#endif
