/* vf_os.c -- OS shim: owns mimalloc's environment (mappings, faults, clock, randomness).
 * Compiled WITHOUT verif_pre.h so that it reaches the real system calls. */
#define _GNU_SOURCE 1
#include "vf_os.h"
#include <sys/mman.h>
#include <sys/prctl.h>
#include <sys/syscall.h>
#include <sys/personality.h>
#include <unistd.h>
#include <stdarg.h>
#include <stdio.h>
#include <stdlib.h>
#include <string.h>
#include <errno.h>
#include <time.h>

vf_os_state_t vf_os = { .fail_at = { -1, -1, -1, -1 }, .fail_from = -1, .clock_ms = 1000000, .rng_seed = 1 };

static volatile int vf_os_lockword;
static inline void os_lock(void)   { while (__atomic_exchange_n(&vf_os_lockword, 1, __ATOMIC_ACQUIRE)) { } }
static inline void os_unlock(void) { __atomic_store_n(&vf_os_lockword, 0, __ATOMIC_RELEASE); }

#define PG 4096UL
static inline uintptr_t pg_down(uintptr_t a) { return a & ~(PG - 1); }
static inline uintptr_t pg_up(uintptr_t a)   { return (a + PG - 1) & ~(PG - 1); }

static void die(const char* msg) {
  fprintf(stderr, "vf_os: fatal: %s\n", msg);
  _exit(97);  /* infrastructure error */
}

const char* vf_os_kind_name(int kind) {
  static const char* n[] = { "mmap", "munmap", "mprotect", "madvise" };
  return (kind >= 0 && kind < VF_C_NKINDS) ? n[kind] : "?";
}

/* ---------------- region table: sorted, disjoint, maximal-merged ------------------------ */

static int region_find(uintptr_t a) {  /* first region with end > a */
  int lo = 0, hi = vf_os.nregions;
  while (lo < hi) { int m = (lo + hi) / 2; if (vf_os.regions[m].end > a) hi = m; else lo = m + 1; }
  return lo;
}

/* (plain loops instead of memmove: libc's memmove is intercepted by ThreadSanitizer even in this uninstrumented TU, and the
   table is protected by vf_os_lock, which the sanitizer cannot see) */
static void region_insert_at(int i, vf_region_t r) {
  if (vf_os.nregions >= VF_MAX_REGIONS) die("region table full");
  for (int k = vf_os.nregions; k > i; k--) vf_os.regions[k] = vf_os.regions[k - 1];
  vf_os.regions[i] = r; vf_os.nregions++;
}
static void region_delete_at(int i) {
  for (int k = i; k + 1 < vf_os.nregions; k++) vf_os.regions[k] = vf_os.regions[k + 1];
  vf_os.nregions--;
}
/* make sure `a` is a region boundary if it lies inside a region */
static void region_split(uintptr_t a) {
  int i = region_find(a);
  if (i < vf_os.nregions && vf_os.regions[i].start < a) {
    vf_region_t r = vf_os.regions[i];
    vf_os.regions[i].end = a;
    r.start = a;
    region_insert_at(i + 1, r);
  }
}
static bool region_same(const vf_region_t* x, const vf_region_t* y) {
  return x->prot == y->prot && x->purged == y->purged && x->adopted == y->adopted && x->born == y->born;
}
static void region_merge_around(uintptr_t lo, uintptr_t hi) {
  int i = region_find(lo > PG ? lo - PG : 0);
  while (i + 1 < vf_os.nregions && vf_os.regions[i].start <= hi) {
    if (vf_os.regions[i].end == vf_os.regions[i + 1].start && region_same(&vf_os.regions[i], &vf_os.regions[i + 1])) {
      vf_os.regions[i].end = vf_os.regions[i + 1].end;
      region_delete_at(i + 1);
    } else i++;
  }
}
/* is [lo,hi) fully covered by regions? */
static bool region_covered(uintptr_t lo, uintptr_t hi, int need_rw) {
  int i = region_find(lo);
  uintptr_t at = lo;
  while (at < hi) {
    if (i >= vf_os.nregions || vf_os.regions[i].start > at) return false;
    if (need_rw && vf_os.regions[i].prot != VF_P_RW) return false;
    at = vf_os.regions[i].end; i++;
  }
  return true;
}
static void region_remove(uintptr_t lo, uintptr_t hi) {
  region_split(lo); region_split(hi);
  int i = region_find(lo);
  while (i < vf_os.nregions && vf_os.regions[i].start < hi) region_delete_at(i);
}
static void region_add(uintptr_t lo, uintptr_t hi, int prot, int adopted, uint32_t born) {
  region_remove(lo, hi);
  vf_region_t r = { lo, hi, (uint8_t)prot, (uint8_t)(prot == VF_P_NONE), (uint8_t)adopted, born };
  region_insert_at(region_find(lo), r);
  region_merge_around(lo, hi);
}
/* update the parts of [lo,hi) that are covered; prot/purged < 0 means "leave" */
static void region_update(uintptr_t lo, uintptr_t hi, int prot, int purged) {
  region_split(lo); region_split(hi);
  for (int i = region_find(lo); i < vf_os.nregions && vf_os.regions[i].start < hi; i++) {
    if (prot >= 0)   vf_os.regions[i].prot = (uint8_t)prot;
    if (purged >= 0) vf_os.regions[i].purged = (uint8_t)purged;
  }
  region_merge_around(lo, hi);
}

bool vf_os_accessible(const void* p, size_t len) {
  if (len == 0) len = 1;
  os_lock(); bool r = region_covered(pg_down((uintptr_t)p), pg_up((uintptr_t)p + len), 1); os_unlock(); return r;
}
bool vf_os_mapped(const void* p, size_t len) {
  if (len == 0) len = 1;
  os_lock(); bool r = region_covered(pg_down((uintptr_t)p), pg_up((uintptr_t)p + len), 0); os_unlock(); return r;
}
size_t vf_os_mapped_bytes(void) {
  size_t n = 0;
  for (int i = 0; i < vf_os.nregions; i++) if (!vf_os.regions[i].adopted) n += vf_os.regions[i].end - vf_os.regions[i].start;
  return n;
}
size_t vf_os_accessible_unpurged_bytes(uintptr_t lo, uintptr_t hi) {
  size_t n = 0;
  for (int i = 0; i < vf_os.nregions; i++) {
    const vf_region_t* r = &vf_os.regions[i];
    if (r->prot != VF_P_RW || r->purged) continue;
    uintptr_t a = r->start > lo ? r->start : lo, b = r->end < hi ? r->end : hi;
    if (a < b) n += b - a;
  }
  return n;
}
size_t vf_os_resident_bytes(uintptr_t lo, uintptr_t hi) {
  size_t n = 0;
  static unsigned char vec[65536];
  for (int i = 0; i < vf_os.nregions; i++) {
    const vf_region_t* r = &vf_os.regions[i];
    uintptr_t a = r->start > lo ? r->start : lo, b = r->end < hi ? r->end : hi;
    while (a < b) {
      size_t chunk = b - a; if (chunk > sizeof(vec) * PG) chunk = sizeof(vec) * PG;
      if (mincore((void*)a, chunk, vec) == 0) { for (size_t k = 0; k < chunk / PG; k++) if (vec[k] & 1) n += PG; }
      a += chunk;
    }
  }
  return n;
}
uint64_t vf_os_table_hash(void) {
  uint64_t h = 1469598103934665603ULL;
  for (int i = 0; i < vf_os.nregions; i++) {
    const vf_region_t* r = &vf_os.regions[i];
    uint64_t w[3] = { r->start, r->end, (uint64_t)r->prot | ((uint64_t)r->purged << 8) | ((uint64_t)r->adopted << 16) };
    for (int k = 0; k < 3; k++) { h ^= w[k]; h *= 1099511628211ULL; h ^= h >> 29; }
  }
  h ^= (uint64_t)vf_os.clock_ms; h *= 1099511628211ULL;
  return h;
}
void vf_os_adopt(void* addr, size_t len, int prot) {
  os_lock(); region_add(pg_down((uintptr_t)addr), pg_up((uintptr_t)addr + len), prot, 1, (uint32_t)vf_os.ncalls); os_unlock();
}
void (*vf_new_handler)(void) = NULL;
typedef void (*vf_nh_t)(void);
vf_nh_t _ZSt15get_new_handlerv(void) { return vf_new_handler; }

void vf_os_plan_clear(void) {
  for (int i = 0; i < VF_MAX_FAILS; i++) vf_os.fail_at[i] = -1;
  vf_os.fail_from = -1; vf_os.fail_kinds = 0;
}

void vf_os_dump(int fd_unused) {
  (void)fd_unused;
  fprintf(stderr, "--- OS call log (%ld calls, %ld refused)\n", vf_os.ncalls, vf_os.nfailed);
  for (long k = 0; k < vf_os.ncalls && k < VF_MAX_CALLS; k++) { const vf_call_t* c = &vf_os.calls[k]; fprintf(stderr, "  #%ld %s%s addr=%p len=%zu arg=%d res=%p\n", k, vf_os_kind_name(c->kind), c->failed ? " [REFUSED]" : "", (void*)c->addr, c->len, c->arg, (void*)c->res); }
  fprintf(stderr, "--- mappings\n");
  for (int i = 0; i < vf_os.nregions; i++) { const vf_region_t* r = &vf_os.regions[i]; fprintf(stderr, "  [%p,%p) %zu KiB %s%s born=#%u\n", (void*)r->start, (void*)r->end, (r->end - r->start) / 1024, r->prot ? "rw" : "none", r->purged ? " purged" : "", r->born); }
}

/* ---------------- call log + fault plan -------------------------------------------------- */

static bool plan_fails(int kind, long idx) {
  if (vf_os.never_fail_kinds & (1u << kind)) return false;
  for (int i = 0; i < VF_MAX_FAILS; i++) if (vf_os.fail_at[i] == idx) return true;
  if (vf_os.fail_from >= 0 && idx >= vf_os.fail_from && (vf_os.fail_kinds & (1u << kind))) return true;
  return false;
}
static void log_call(int kind, int arg, uintptr_t addr, size_t len, uintptr_t res, int failed) {
  long k = vf_os.ncalls++;
  vf_os.kind_count[kind]++;
  if (failed) vf_os.nfailed++;
  if (k < VF_MAX_CALLS) {
    vf_call_t* c = &vf_os.calls[k];
    c->kind = (uint8_t)kind; c->failed = (uint8_t)failed; c->arg = arg; c->addr = addr; c->len = len; c->res = res;
  }
  uint64_t w[5] = { (uint64_t)kind | ((uint64_t)failed << 8), (uint64_t)(uint32_t)arg, addr, len, res };
  uint64_t h = vf_os.log_hash;
  for (int i = 0; i < 5; i++) { h ^= w[i]; h *= 1099511628211ULL; h ^= h >> 31; }
  vf_os.log_hash = h;
}

/* ---------------- the shimmed calls ------------------------------------------------------- */

void* vf_real_mmap(void* addr, size_t len, int prot, int flags, int fd, long off) { return mmap(addr, len, prot, flags, fd, off); }
int   vf_real_munmap(void* addr, size_t len) { return munmap(addr, len); }

/* Under the schedule explorer a call that changes the address space is a visible operation on a resource shared by all
 * threads (a late madvise of one thread can wipe what another thread stores there): a scheduling point on one pseudo-address,
 * always a choice point (it conflicts with the plain memory accesses of the other threads, which are not instrumented).
 * Outside an exploration vf_point returns at once. */
int vf_point_always(int kind, const volatile void* addr);
static volatile char vf_os_token;
#define VF_OS_POINT() ((void)vf_point_always(3 /* VF_RMW */, &vf_os_token))

void* vf_os_mmap(void* addr, size_t len, int prot, int flags, int fd, long off) {
  VF_OS_POINT();
  os_lock();
  long idx = vf_os.ncalls;
  if (plan_fails(VF_C_MMAP, idx) || ((flags & MAP_HUGETLB) && !vf_os.grant_hugetlb)) {
    /* huge-TLB mappings are never available in the modelled OS (keeps residency 4 KiB granular) */
    log_call(VF_C_MMAP, prot, (uintptr_t)addr, len, (uintptr_t)MAP_FAILED, 1);
    os_unlock();
    errno = ENOMEM;
    return MAP_FAILED;
  }
  if (flags & MAP_HUGETLB) flags &= ~(MAP_HUGETLB | (0x3f << 26));   /* granted: emulated with ordinary pages (MAP_HUGE_* size bits dropped) */
  if (vf_os.ignore_hint && addr != NULL && !(flags & MAP_FIXED)) {
    /* environment answer "hint not honoured": deterministic placement below the 48 TiB limit of mimalloc's segment map, never
       aligned to more than 4 KiB */
    if (vf_os.hint_bump == 0) vf_os.hint_bump = (uintptr_t)0x200000000000ULL;
    addr = (void*)(vf_os.hint_bump + 68 * 1024);
    vf_os.hint_bump += ((len + (64UL << 20)) & ~((32UL << 20) - 1));
  }
  void* p = mmap(addr, len, prot, flags, fd, off);
  if (p != MAP_FAILED) {
    region_add((uintptr_t)p, pg_up((uintptr_t)p + len), (prot & PROT_WRITE) ? VF_P_RW : VF_P_NONE, 0, (uint32_t)idx);
    /* fresh anonymous memory is zero and not resident: treat as purged until touched/committed.
       (purged only records "contents dropped"; a fresh RW mapping counts as not purged so that the
       C11 oracle sees committed memory.) */
    if (prot & PROT_WRITE) region_update((uintptr_t)p, pg_up((uintptr_t)p + len), -1, 0);
  }
  int e = errno;
  log_call(VF_C_MMAP, prot, (uintptr_t)addr, len, (uintptr_t)p, p == MAP_FAILED);
  os_unlock();
  errno = e;
  return p;
}

static void note_untracked(uintptr_t a) { vf_os.untracked_touch++; if (!vf_os.untracked_addr) vf_os.untracked_addr = a; }

int vf_os_munmap(void* addr, size_t len) {
  VF_OS_POINT();
  os_lock();
  long idx = vf_os.ncalls;
  if (vf_os.monitor) vf_os.monitor(VF_C_MUNMAP, 0, (uintptr_t)addr, len);
  if (plan_fails(VF_C_MUNMAP, idx)) {
    log_call(VF_C_MUNMAP, 0, (uintptr_t)addr, len, (uintptr_t)-1, 1);
    os_unlock(); errno = EINVAL; return -1;
  }
  uintptr_t lo = pg_down((uintptr_t)addr), hi = pg_up((uintptr_t)addr + len);
  if (len > 0 && !region_covered(lo, hi, 0)) note_untracked(lo);
  int r = munmap(addr, len);
  int e = errno;
  if (r == 0 && len > 0) region_remove(lo, hi);
  log_call(VF_C_MUNMAP, 0, (uintptr_t)addr, len, (uintptr_t)(long)r, r != 0);
  os_unlock(); errno = e;
  return r;
}

int vf_os_mprotect(void* addr, size_t len, int prot) {
  VF_OS_POINT();
  os_lock();
  long idx = vf_os.ncalls;
  if (prot == PROT_NONE && vf_os.monitor) vf_os.monitor(VF_C_MPROTECT, prot, (uintptr_t)addr, len);
  if (plan_fails(VF_C_MPROTECT, idx)) {
    log_call(VF_C_MPROTECT, prot, (uintptr_t)addr, len, (uintptr_t)-1, 1);
    os_unlock(); errno = ENOMEM; return -1;
  }
  uintptr_t lo = pg_down((uintptr_t)addr), hi = pg_up((uintptr_t)addr + len);
  if (len > 0 && !region_covered(lo, hi, 0)) note_untracked(lo);
  int r = mprotect(addr, len, prot);
  int e = errno;
  if (r == 0) {
    if (prot == PROT_NONE) region_update(lo, hi, VF_P_NONE, 1);
    else region_update(lo, hi, VF_P_RW, 0);   /* (re)commit */
  }
  log_call(VF_C_MPROTECT, prot, (uintptr_t)addr, len, (uintptr_t)(long)r, r != 0);
  os_unlock(); errno = e;
  return r;
}

int vf_os_madvise(void* addr, size_t len, int advice) {
  VF_OS_POINT();
  if (advice != MADV_DONTNEED && advice != MADV_FREE) {
    /* MADV_HUGEPAGE and friends: accepted and dropped; not a counted call */
    return 0;
  }
  os_lock();
  long idx = vf_os.ncalls;
  if (vf_os.monitor) vf_os.monitor(VF_C_MADVISE, advice, (uintptr_t)addr, len);
  if (plan_fails(VF_C_MADVISE, idx)) {
    log_call(VF_C_MADVISE, advice, (uintptr_t)addr, len, (uintptr_t)-1, 1);
    os_unlock(); errno = ENOMEM; return -1;
  }
  if (advice == MADV_FREE && vf_os.madv_free_einval) {
    log_call(VF_C_MADVISE, advice, (uintptr_t)addr, len, (uintptr_t)-1, 1);
    os_unlock(); errno = EINVAL; return -1;
  }
  uintptr_t lo = pg_down((uintptr_t)addr), hi = pg_up((uintptr_t)addr + len);
  if (len > 0 && !region_covered(lo, hi, 0)) note_untracked(lo);
  int r = 0, e = 0;
  if (advice == MADV_DONTNEED || vf_os.reset_zero) {
    /* only drop pages that are accessible; DONTNEED on PROT_NONE private anonymous memory is fine too */
    r = madvise(addr, len, MADV_DONTNEED); e = errno;
  } /* MADV_FREE with reset_zero==0: the OS legally keeps the contents; nothing to do */
  if (r == 0) region_update(lo, hi, -1, 1);
  log_call(VF_C_MADVISE, advice, (uintptr_t)addr, len, (uintptr_t)(long)r, r != 0);
  os_unlock(); errno = e;
  return r;
}

int vf_os_prctl(int option, ...) {
  va_list ap; va_start(ap, option);
  unsigned long a2 = va_arg(ap, unsigned long), a3 = va_arg(ap, unsigned long), a4 = va_arg(ap, unsigned long), a5 = va_arg(ap, unsigned long);
  va_end(ap);
  if (option == PR_SET_VMA) return 0;              /* naming of mappings: dropped */
  if (option == PR_GET_THP_DISABLE) return 1;      /* pretend THP is already disabled: no further call */
  if (option == PR_SET_THP_DISABLE) return 0;
  return prctl(option, a2, a3, a4, a5);
}

int vf_os_clock_gettime(int clk, struct timespec* ts) {
  (void)clk;
  int64_t ms = __atomic_load_n(&vf_os.clock_ms, __ATOMIC_RELAXED);
  ts->tv_sec = ms / 1000; ts->tv_nsec = (ms % 1000) * 1000000L;
  return 0;
}

static uint64_t splitmix(uint64_t x) {
  x += 0x9E3779B97F4A7C15ULL; x = (x ^ (x >> 30)) * 0xBF58476D1CE4E5B9ULL; x = (x ^ (x >> 27)) * 0x94D049BB133111EBULL; return x ^ (x >> 31);
}

long vf_os_syscall(long nr, ...) {
  va_list ap; va_start(ap, nr);
  long a1 = va_arg(ap, long), a2 = va_arg(ap, long), a3 = va_arg(ap, long), a4 = va_arg(ap, long), a5 = va_arg(ap, long), a6 = va_arg(ap, long);
  va_end(ap);
  if (nr == SYS_getrandom) {
    unsigned char* buf = (unsigned char*)a1; size_t n = (size_t)a2;
    os_lock();
    for (size_t i = 0; i < n; i += 8) {
      uint64_t v = splitmix(vf_os.rng_seed * 0x100000001B3ULL + (vf_os.rng_ctr++));
      size_t m = n - i < 8 ? n - i : 8;
      memcpy(buf + i, &v, m);
    }
    os_unlock();
    return (long)n;
  }
  if (nr == SYS_getcpu) {  /* numa node detection: always node 0 */
    if (a1) *(unsigned long*)a1 = 0;
    if (a2) *(unsigned long*)a2 = 0;
    return 0;
  }
  return syscall(nr, a1, a2, a3, a4, a5, a6);
}

/* ---------------- start-up: ASLR off (in-process personality + re-exec), seed ----------- */

__attribute__((constructor(101))) static void vf_os_startup(int argc, char** argv, char** envp) {
  (void)argc;
  const char* s = getenv("VERIF_SEED");
  if (s && *s) vf_os.rng_seed = strtoull(s, NULL, 10) + 1;
  if (getenv("VF_RESET_ZERO")) vf_os.reset_zero = atoi(getenv("VF_RESET_ZERO"));
  if (getenv("VF_IGNORE_HINT")) vf_os.ignore_hint = atoi(getenv("VF_IGNORE_HINT"));
  if (getenv("VF_MADV_FREE_EINVAL")) vf_os.madv_free_einval = atoi(getenv("VF_MADV_FREE_EINVAL"));
  if (getenv("VF_NO_REEXEC")) return;
  int pers = personality(0xffffffff);
  if (pers != -1 && !(pers & ADDR_NO_RANDOMIZE)) {
    if (personality(pers | ADDR_NO_RANDOMIZE) != -1) {
      setenv("VF_NO_REEXEC", "1", 1);
      extern char** environ;
      execve("/proc/self/exe", argv, environ);
      (void)envp;
    }
  }
}
