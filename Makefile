# setup: nothing is fetched; the harness binaries depend on /repo's working tree and are therefore built by
# ./check itself (content-hashed under build/). This target only verifies the toolchain and prepares directories.
all:
	@mkdir -p build replays evidence
	@gcc --version >/dev/null && python3 --version >/dev/null
	@gcc -std=gnu11 -O2 -I engine -c engine/vf_os.c -o build/.vf_os_probe.o && rm -f build/.vf_os_probe.o
	@echo "verif setup ok"
