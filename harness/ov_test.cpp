// ov_test.cpp -- C19: drop-in override. Runs under (1) LD_PRELOAD=libmimalloc.so and (2) linked with the static override
// object first. Enumerates every pair (allocating entry point, releasing/resizing/querying entry point) x sizes; each pair in
// a forked child. Oracle: the pointer is a mimalloc heap block (mi_is_in_heap_region, mi_usable_size >= n), the release runs
// without crash and the block is gone from / resized in mimalloc's heap (heap walk), standard return values, and glibc's own
// allocator stays unused for the whole run (mallinfo2). Prints one JSON line.
#include <cstdio>
#include <cstdlib>
#include <cstring>
#include <cerrno>
#include <cstdint>
#include <cstdarg>
#include <new>
#include <string>
#include <vector>
#include <map>
#include <thread>
#include <iostream>
#include <sstream>
#include <malloc.h>
#include <dlfcn.h>
#include <unistd.h>
#include <limits.h>
#include <sys/wait.h>
#include <sys/mman.h>

extern "C" {
  void  cfree(void*);
  void* __libc_malloc(size_t); void* __libc_calloc(size_t, size_t); void* __libc_realloc(void*, size_t); void __libc_free(void*);
  void* __libc_memalign(size_t, size_t); void* __libc_valloc(size_t); void* __libc_pvalloc(size_t);
  void* reallocarray(void*, size_t, size_t);
  void* pvalloc(size_t);
}
typedef bool   (*is_in_heap_fn)(const void*);
typedef size_t (*usable_fn)(const void*);
typedef void*  (*get_default_fn)(void);
typedef bool   (*visit_fn)(const void* heap, bool visit_blocks, bool (*visitor)(const void*, const void*, void*, size_t, void*), void* arg);
static is_in_heap_fn f_in_heap; static usable_fn f_usable; static get_default_fn f_heap; static visit_fn f_visit;
#ifdef OV_STATIC   /* static override object: its mi_ symbols are hidden from dlsym but linkable */
extern "C" { bool mi_is_in_heap_region(const void*); size_t mi_usable_size(const void*); void* mi_heap_get_default(void);
             bool mi_heap_visit_blocks(const void* heap, bool visit_blocks, bool (*visitor)(const void*, const void*, void*, size_t, void*), void* arg); }
#endif

struct shared_t { long pairs, ok, nontrivial; int nviol; char viol[8][400]; };
static shared_t* sh;
static void viol(const char* fmt, ...) { va_list ap; va_start(ap, fmt); if (sh->nviol < 8) { vsnprintf(sh->viol[sh->nviol], 400, fmt, ap); sh->nviol++; } va_end(ap); }

static bool count_cb(const void*, const void*, void* block, size_t, void* arg) { if (block) (*(long*)arg)++; return true; }
static long heap_blocks() { long n = 0; f_visit(f_heap(), true, count_cb, &n); return n; }
struct find_t { const void* p; int hits; };
static bool find_cb(const void*, const void*, void* block, size_t bs, void* arg) { find_t* f = (find_t*)arg; if (block && (const char*)f->p >= (const char*)block && (const char*)f->p < (const char*)block + (bs ? bs : 1)) f->hits++; return true; }
static int heap_has(const void* p) { find_t f = { p, 0 }; f_visit(f_heap(), true, find_cb, &f); return f.hits; }

static const char* A_names[] = { "malloc", "calloc", "realloc(NULL)", "posix_memalign", "aligned_alloc", "memalign", "valloc", "pvalloc", "reallocarray(NULL)", "strdup", "strndup", "realpath",
  "new", "new[]", "new(nothrow)", "new[](nothrow)", "new(align)", "new[](align)", "new(align,nothrow)", "new[](align,nothrow)", "__libc_malloc", "__libc_calloc", "__libc_realloc(NULL)", "__libc_memalign", "__libc_valloc", "__libc_pvalloc" };
#define NA 26
static const char* R_names[] = { "free", "cfree", "realloc(p,2n+1)", "realloc(p,n/2+1)", "reallocarray(p,3,n+1)", "malloc_usable_size+free", "delete", "delete[]", "delete(sized)", "delete[](sized)", "delete(align)", "delete[](align)",
  "delete(sized,align)", "delete(nothrow)", "delete(align,nothrow)", "__libc_free", "__libc_realloc(p,n+100)", "realloc(p,0)" };
#define NR 18
static const size_t SIZES[] = { 0, 1, 24, 4096, 100000, 20u << 20 };
#define NS 6
static const size_t AL = 64;

static void* do_alloc(int a, size_t n, size_t* eff) {
  *eff = n; void* p = NULL;
  switch (a) {
    case 0: return malloc(n);
    case 1: return calloc(n ? 1 : 0, n);
    case 2: return realloc(NULL, n);
    case 3: return posix_memalign(&p, AL, n) == 0 ? p : NULL;
    case 4: return aligned_alloc(AL, n);
    case 5: return memalign(AL, n);
    case 6: return valloc(n);
    case 7: *eff = (n + 4095) & ~(size_t)4095; return pvalloc(n);
    case 8: return reallocarray(NULL, 1, n);
    case 9: case 10: { if (n == 0 || n > 200000) return (void*)-1; std::string s(n - 1, 'x'); char* d = (a == 9 ? strdup(s.c_str()) : strndup(s.c_str(), n + 3)); if (d && (strlen(d) != n - 1)) return (void*)-2; return d; }
    case 11: { if (n != 4096) return (void*)-1; *eff = 2; return realpath("/", NULL); }
    case 12: return ::operator new(n);
    case 13: return ::operator new[](n);
    case 14: return ::operator new(n, std::nothrow);
    case 15: return ::operator new[](n, std::nothrow);
    case 16: return ::operator new(n, std::align_val_t(AL));
    case 17: return ::operator new[](n, std::align_val_t(AL));
    case 18: return ::operator new(n, std::align_val_t(AL), std::nothrow);
    case 19: return ::operator new[](n, std::align_val_t(AL), std::nothrow);
    case 20: return __libc_malloc(n);
    case 21: return __libc_calloc(1, n);
    case 22: return __libc_realloc(NULL, n);
    case 23: return __libc_memalign(AL, n);
    case 24: return __libc_valloc(n);
    case 25: *eff = (n + 4095) & ~(size_t)4095; return __libc_pvalloc(n);
  }
  return NULL;
}
static int is_aligned_entry(int a) { return a == 3 || a == 4 || a == 5 || a == 16 || a == 17 || a == 18 || a == 19 || a == 23; }

// returns 0 ok; releases p through entry r; *q receives a resized block that is still live (already released here too)
static int do_release(int r, int a, void* p, size_t n, const char* tag) {
  void* q = NULL; size_t n2 = 0;
  switch (r) {
    case 0: free(p); return 0;
    case 1: cfree(p); return 0;
    case 2: n2 = 2 * n + 1; q = realloc(p, n2); break;
    case 3: n2 = n / 2 + 1; q = realloc(p, n2); break;
    case 4: n2 = 3 * (n + 1); q = reallocarray(p, 3, n + 1); break;
    case 5: { size_t u = malloc_usable_size(p); if (u < n) { viol("%s: malloc_usable_size = %zu < %zu", tag, u, n); return 1; } if (u != f_usable(p)) { viol("%s: malloc_usable_size %zu != mi_usable_size %zu", tag, u, f_usable(p)); return 1; } memset(p, 0x5A, u); /* what is reported as usable may be used (a hardened build checks the bytes behind it when the block is released) */ free(p); return 0; }
    case 6: ::operator delete(p); return 0;
    case 7: ::operator delete[](p); return 0;
    case 8: ::operator delete(p, n); return 0;
    case 9: ::operator delete[](p, n); return 0;
    case 10: if (!is_aligned_entry(a)) { ::operator delete(p, std::align_val_t(8)); return 0; } ::operator delete(p, std::align_val_t(AL)); return 0;
    case 11: if (!is_aligned_entry(a)) { ::operator delete[](p, std::align_val_t(8)); return 0; } ::operator delete[](p, std::align_val_t(AL)); return 0;
    case 12: ::operator delete(p, n, std::align_val_t(is_aligned_entry(a) ? AL : 8)); return 0;
    case 13: ::operator delete(p, std::nothrow); return 0;
    case 14: ::operator delete(p, std::align_val_t(is_aligned_entry(a) ? AL : 8), std::nothrow); return 0;
    case 15: __libc_free(p); return 0;
    case 16: n2 = n + 100; q = __libc_realloc(p, n2); break;
    case 17: n2 = 0; q = realloc(p, 0); if (q == NULL) { viol("%s: realloc(p,0) returned NULL (mimalloc documents a valid minimal block)", tag); return 1; } break;
  }
  if (q == NULL) { viol("%s: resize returned NULL", tag); return 1; }
  if (!f_in_heap(q) || f_usable(q) < n2) { viol("%s: resized block %p not a heap block of >= %zu bytes (usable %zu)", tag, q, n2, f_usable(q)); return 1; }
  size_t keep = n < n2 ? n : n2;
  for (size_t i = 0; i < keep; i += (n > 65536 ? 4093 : 1)) if (((unsigned char*)q)[i] != (unsigned char)(0x3C + i * 7)) { viol("%s: byte %zu lost in resize", tag, i); return 1; }
  free(q);
  return 0;
}

static void run_pair(int a, int si, int r) {
  size_t n = SIZES[si], eff = 0;
  char tag[160]; snprintf(tag, sizeof(tag), "%s(%zu) -> %s", A_names[a], n, R_names[r]);
  /* aligned entry points: three earlier aligned blocks of the same size stay live, so that the measured one is not always the
     naturally aligned first block of a fresh page (over-allocated blocks are returned as interior pointers) */
  void* spacers[3] = { NULL, NULL, NULL };
  if (is_aligned_entry(a) && n > 0 && n <= 100000) for (int k = 0; k < 3; k++) { size_t e2; void* sp = do_alloc(a, n + (size_t)k * 8, &e2); spacers[k] = (sp == (void*)-1 ? NULL : sp); if (sp == NULL || sp == (void*)-1) break; if (((uintptr_t)sp % AL) != 0) { viol("%s: spacer %p not %zu-aligned", tag, sp, AL); return; } memset(sp, 0x11, f_usable(sp)); }
  long before = heap_blocks();
  void* p = do_alloc(a, n, &eff);
  if (p == (void*)-1) return;
  sh->pairs++;
  if (p == (void*)-2) { viol("%s: duplicated string differs", tag); return; }
  if (p == NULL) { viol("%s: allocation returned NULL", tag); return; }
  if (!f_in_heap(p)) { viol("%s: %p is not in a mimalloc heap region: the entry point is not served by mimalloc", tag, p); return; }
  if (f_usable(p) < eff) { viol("%s: mi_usable_size %zu < %zu", tag, f_usable(p), eff); return; }
  if (is_aligned_entry(a) && ((uintptr_t)p % AL) != 0) { viol("%s: %p not %zu-aligned", tag, p, AL); return; }
  if ((a == 6 || a == 7 || a == 24 || a == 25) && ((uintptr_t)p % 4096) != 0) { viol("%s: %p not page aligned", tag, p); return; }
  if (a != 9 && a != 10 && a != 11) for (size_t i = 0; i < eff; i += (eff > 65536 ? 4093 : 1)) ((unsigned char*)p)[i] = (unsigned char)(0x3C + i * 7);
  if (heap_has(p) != 1) { viol("%s: the heap walk reports the new block %d times", tag, heap_has(p)); return; }
  long mid = heap_blocks();
  if (mid != before + 1) { viol("%s: heap holds %ld blocks after one allocation (before %ld)", tag, mid, before); return; }
  if ((a == 9 || a == 10 || a == 11) && (r == 2 || r == 3 || r == 4 || r == 16 || r == 17)) { free(p); sh->ok++; return; }   /* content check needs our pattern */
  if (do_release(r, a, p, eff, tag)) return;
  long after = heap_blocks();
  if (after != before) { viol("%s: heap holds %ld blocks after the release (before the allocation: %ld): not released exactly once", tag, after, before); return; }
  /* the spacers were filled up to their reported usable size: releasing them lets a hardened build verify what lies behind */
  for (int k = 0; k < 3; k++) if (spacers[k]) { if (a == 16 || a == 18) ::operator delete(spacers[k], std::align_val_t(AL)); else if (a == 17 || a == 19) ::operator delete[](spacers[k], std::align_val_t(AL)); else free(spacers[k]); }
  sh->ok++; if (n >= 4096) sh->nontrivial++;
}

static int standard_codes() {
  void* sentinel = (void*)0x5e5e; void* p = sentinel; int rc;
  struct { size_t al, n; int want; } cases[] = { { 0, 64, EINVAL }, { 3, 64, EINVAL }, { 24, 64, EINVAL }, { 4, 64, EINVAL }, { sizeof(void*) * 3, 8, EINVAL }, { 64, SIZE_MAX - 100, ENOMEM }, { 0, 0, EINVAL }, { 0, SIZE_MAX, EINVAL } };
  for (auto& c : cases) { p = sentinel; rc = posix_memalign(&p, c.al, c.n); if (rc != c.want || p != sentinel) { viol("posix_memalign(&p, %zu, %zu) = %d (out-param %s), expected %d with the out-parameter untouched", c.al, c.n, rc, p == sentinel ? "untouched" : "MODIFIED", c.want); return 1; } }
  p = sentinel; rc = posix_memalign(&p, 64, 100); if (rc != 0 || p == sentinel || ((uintptr_t)p % 64)) { viol("posix_memalign(&p,64,100) = %d", rc); return 1; } free(p);
  errno = 0; void* q = reallocarray(NULL, SIZE_MAX / 2, 4); if (q != NULL || errno != ENOMEM) { viol("reallocarray overflow: %p errno %d, expected NULL/ENOMEM", q, errno); return 1; }
  void* live = malloc(100); memset(live, 7, 100); errno = 0; q = reallocarray(live, SIZE_MAX, 2); if (q != NULL || errno != ENOMEM || ((unsigned char*)live)[99] != 7) { viol("reallocarray overflow on a live block"); return 1; } free(live);
  q = calloc(SIZE_MAX / 2, 4); if (q != NULL) { viol("calloc overflow returned %p", q); return 1; }
  q = malloc(0); if (q == NULL) { viol("malloc(0) returned NULL"); return 1; } free(q);
  if (::operator new(SIZE_MAX - 64, std::nothrow) != NULL) { viol("nothrow new of SIZE_MAX-64 returned non-NULL"); return 1; }
  /* every nothrow form reports an unsatisfiable request with NULL (no new-handler is installed): plain, array, aligned, aligned array */
  { const size_t big[] = { (size_t)PTRDIFF_MAX + 1, SIZE_MAX - 64, SIZE_MAX / 2 + 4096 };
    for (size_t n : big) {
      if (::operator new[](n, std::nothrow) != NULL) { viol("nothrow new[] of %zu bytes returned non-NULL", n); return 1; }
      if (::operator new(n, std::align_val_t(64), std::nothrow) != NULL) { viol("aligned nothrow new of %zu bytes returned non-NULL", n); return 1; }
      if (::operator new[](n, std::align_val_t(4096), std::nothrow) != NULL) { viol("aligned nothrow new[] of %zu bytes returned non-NULL", n); return 1; }
    }
    void* ok1 = ::operator new(100, std::align_val_t(64), std::nothrow); if (ok1 == NULL || ((uintptr_t)ok1 % 64) || !f_in_heap(ok1)) { viol("aligned nothrow new(100, 64) = %p", ok1); return 1; } ::operator delete(ok1, std::align_val_t(64));
  }
  /* (the throwing operator new cannot throw from the C build of mimalloc: it calls the new-handler or aborts by design; not tested) */
  free(NULL); ::operator delete((void*)NULL); if (malloc_usable_size(NULL) != 0) { viol("malloc_usable_size(NULL) != 0"); return 1; }
  return 0;
}

/* the string duplicators over (length, limit): the copy is exactly the first min(length, limit) characters, its block can hold
   it, and the neighbours are untouched -- whatever the limit (a limit is not a size request) */
static int string_limits() {
  static const size_t lens[] = { 0, 1, 5, 40, 1000, 70000 };
  for (size_t L : lens) {
    std::string s(L, 'q'); for (size_t i = 0; i < L; i++) s[i] = (char)('a' + (i * 7) % 26);
    const size_t limits[] = { 0, 1, L > 0 ? L - 1 : 0, L, L + 1, L + 8, 65536, (size_t)1 << 40, SIZE_MAX / 2, (size_t)PTRDIFF_MAX, (size_t)PTRDIFF_MAX + 1, SIZE_MAX - 8, SIZE_MAX - 1, SIZE_MAX };
    for (size_t lim : limits) {
      unsigned char* before = (unsigned char*)malloc(48); unsigned char* after_ = NULL; memset(before, 0xA5, 48);
      char* d = strndup(s.c_str(), lim);
      after_ = (unsigned char*)malloc(48); memset(after_, 0x5A, 48);
      size_t want = L < lim ? L : lim;
      sh->pairs++;
      if (d == NULL) { viol("strndup(string of %zu characters, limit %zu) returned NULL", L, lim); return 1; }
      if (strlen(d) != want || memcmp(d, s.c_str(), want) != 0) { viol("strndup(string of %zu characters, limit %zu): the copy has %zu characters or differs", L, lim, strlen(d)); return 1; }
      if (!f_in_heap(d)) { viol("strndup result %p is not in a mimalloc heap region", (void*)d); return 1; }
      if (malloc_usable_size(d) < want + 1) { viol("strndup(string of %zu characters, limit %zu): malloc_usable_size %zu cannot hold the %zu bytes that were written", L, lim, malloc_usable_size(d), want + 1); return 1; }
      for (int i = 0; i < 48; i++) if (before[i] != 0xA5 || after_[i] != 0x5A) { viol("strndup(string of %zu characters, limit %zu) changed a neighbouring live block", L, lim); return 1; }
      free(d); free(before); free(after_); sh->ok++; sh->nontrivial += (lim > L + 8);
    }
    char* e = strdup(s.c_str()); sh->pairs++;
    if (e == NULL || strlen(e) != L || memcmp(e, s.c_str(), L) != 0 || malloc_usable_size(e) < L + 1) { viol("strdup(string of %zu characters) is wrong", L); return 1; }
    free(e); sh->ok++;
  }
  return 0;
}

static void whole_program() {
  // containers, streams and threads allocate and free across entry points
  std::vector<std::thread> ts; std::map<int, std::string>* shared[4];
  for (int t = 0; t < 4; t++) ts.emplace_back([t, &shared]() { auto* m = new std::map<int, std::string>(); for (int i = 0; i < 2000; i++) (*m)[i] = std::string((size_t)(i % 300), 'a' + (char)(i % 26)); shared[t] = m; });
  for (auto& th : ts) th.join();
  std::ostringstream os; for (int t = 0; t < 4; t++) { os << shared[t]->size() << ";"; delete shared[t]; }   // freed by another thread
  char* d = strdup(os.str().c_str()); void* r = realloc(d, 4096); free(r);
  if (os.str() != "2000;2000;2000;2000;") viol("whole-program run produced %s", os.str().c_str());
}

/* tiny blocks (1..7 bytes) from six entry points fill whole pages, are released by another thread with free / operator delete
   (a hardened build has to make room for its free-list link inside such a block), and the owner then allocates again */
static void cross_thread_tiny() {
  const int N = 30000; static void* blk[30000]; static unsigned char len[30000];
  for (int i = 0; i < N; i++) {
    size_t n = (size_t)(i % 7) + 1; len[i] = (unsigned char)n; char tmp[8]; memset(tmp, 'k', sizeof(tmp)); tmp[n - 1] = 0;
    switch (i % 6) {
      case 0: blk[i] = malloc(n); break;
      case 1: blk[i] = calloc(1, n); break;
      case 2: blk[i] = strdup(tmp); break;                      /* n - 1 characters + terminator */
      case 3: blk[i] = strndup("kkkkkkkkkkkk", n - 1); break;
      case 4: blk[i] = ::operator new(n); break;
      default: blk[i] = realloc(NULL, n); break;
    }
    if (blk[i] == NULL) { viol("cross-thread release of tiny blocks: allocation %d returned NULL", i); return; }
    memset(blk[i], 0x30 + (int)n, n);
  }
  int bad = 0;
  std::thread t([&bad]() { for (int i = 0; i < N; i++) { unsigned char* c = (unsigned char*)blk[i]; for (size_t j = 0; j < len[i]; j++) if (c[j] != 0x30 + len[i]) bad++; if (i % 6 == 4) ::operator delete(blk[i]); else free(blk[i]); } });
  t.join();
  if (bad) { viol("cross-thread release of tiny blocks: %d bytes of live blocks had changed", bad); return; }
  for (int round = 0; round < 2; round++) { for (int i = 0; i < N; i++) { blk[i] = malloc((size_t)(i % 7) + 1); if (!blk[i]) { viol("allocation after the cross-thread release returned NULL"); return; } } for (int i = 0; i < N; i++) free(blk[i]); }
  sh->pairs++; sh->ok++; sh->nontrivial++;
}

/* blocks above 1 GiB get a mapping of their own that the kernel places where it likes (above the range of mimalloc's segment map):
   they are ordinary blocks for every entry point all the same (address space only: two bytes are touched) */
static void giant_blocks() {
  const size_t n = ((size_t)3 << 29) + 4096;     /* 1.5 GiB */
  for (int a = 0; a < 6; a++) {
    void* p = NULL; const char* nm = "";
    switch (a) {
      case 0: p = malloc(n); nm = "malloc"; break;
      case 1: p = realloc(NULL, n); nm = "realloc(NULL)"; break;
      case 2: p = aligned_alloc(64, n); nm = "aligned_alloc"; break;
      case 3: if (posix_memalign(&p, 4096, n) != 0) p = NULL; nm = "posix_memalign"; break;
      case 4: p = ::operator new(n, std::nothrow); nm = "operator new(nothrow)"; break;
      default: p = valloc(n); nm = "valloc"; break;
    }
    sh->pairs++;
    if (p == NULL) { viol("%s(1.5 GiB) returned NULL", nm); return; }
    size_t u = malloc_usable_size(p);
    if (u < n) { viol("%s(1.5 GiB): malloc_usable_size = %zu < %zu", nm, u, n); return; }
    if (u != f_usable(p)) { viol("%s(1.5 GiB): malloc_usable_size %zu != mi_usable_size %zu", nm, u, f_usable(p)); return; }
    ((volatile char*)p)[0] = 1; ((volatile char*)p)[n - 1] = 2;
    void* q = realloc(p, n - 4096);              /* (a shrink: no copy of 1.5 GiB) */
    if (q == NULL || ((char*)q)[0] != 1 || ((char*)q)[n - 4097] != 0) { viol("%s(1.5 GiB) then realloc(-4096): %p / contents lost", nm, q); return; }
    if (a == 4) ::operator delete(q); else free(q);
    sh->ok++; sh->nontrivial++;
  }
}

int main(int argc, char** argv) {
  const char* mode = argc > 1 ? argv[1] : "?";
#ifdef OV_STATIC
  f_in_heap = &mi_is_in_heap_region; f_usable = &mi_usable_size; f_heap = &mi_heap_get_default; f_visit = &mi_heap_visit_blocks;
#else
  f_in_heap = (is_in_heap_fn)dlsym(RTLD_DEFAULT, "mi_is_in_heap_region"); f_usable = (usable_fn)dlsym(RTLD_DEFAULT, "mi_usable_size");
  f_heap = (get_default_fn)dlsym(RTLD_DEFAULT, "mi_heap_get_default"); f_visit = (visit_fn)dlsym(RTLD_DEFAULT, "mi_heap_visit_blocks");
#endif
  sh = (shared_t*)mmap(NULL, sizeof(shared_t), PROT_READ | PROT_WRITE, MAP_SHARED | MAP_ANONYMOUS, -1, 0);
  if (!f_in_heap || !f_usable || !f_heap || !f_visit) { printf("{\"mode\":\"%s\",\"infra\":\"mimalloc symbols not found: the override library is not loaded\"}\n", mode); return 2; }
  if (argc > 2 && strcmp(argv[2], "codes") == 0) {
    /* only the malformed / oversized requests through the overridden entry points (used by the C06 check) */
    pid_t pid = fork(); if (pid == 0) { int rc = standard_codes(); _exit(rc); } int st = 0; waitpid(pid, &st, 0);
    if (!(WIFEXITED(st) && (WEXITSTATUS(st) == 0 || WEXITSTATUS(st) == 1))) viol("malformed requests through the overridden entry points: process died (status 0x%x)", st);
    sh->pairs = 30; sh->ok = sh->nviol ? 0 : 30; sh->nontrivial = 30;
    printf("{\"mode\":\"%s\",\"pairs\":%ld,\"ok\":%ld,\"nontrivial\":%ld,\"violations\":[", mode, sh->pairs, sh->ok, sh->nontrivial);
    for (int i = 0; i < sh->nviol; i++) { printf("%s\"", i ? "," : ""); for (const char* c = sh->viol[i]; *c; c++) { if (*c == '"' || *c == '\\') putchar('\\'); putchar(*c); } printf("\""); }
    printf("]}\n");
    return sh->nviol > 0 ? 1 : 0;
  }
  int only_a = argc > 2 ? atoi(argv[2]) : -1, only_s = argc > 3 ? atoi(argv[3]) : -1, only_r = argc > 4 ? atoi(argv[4]) : -1;
  for (int a = 0; a < NA; a++) for (int si = 0; si < NS; si++) for (int r = 0; r < NR; r++) {
    if ((only_a >= 0 && a != only_a) || (only_s >= 0 && si != only_s) || (only_r >= 0 && r != only_r)) continue;
    pid_t pid = fork();
    if (pid == 0) { run_pair(a, si, r); _exit(0); }
    int st = 0; waitpid(pid, &st, 0);
    if (!(WIFEXITED(st) && WEXITSTATUS(st) == 0)) viol("%s(%zu) -> %s: process died (status 0x%x)", A_names[a], SIZES[si], R_names[r], st);
  }
  if (only_a < 0) {
    pid_t pid = fork(); if (pid == 0) { int rc = standard_codes(); _exit(rc); } int st = 0; waitpid(pid, &st, 0);
    if (!(WIFEXITED(st) && (WEXITSTATUS(st) == 0 || WEXITSTATUS(st) == 1))) viol("standard return value checks died (status 0x%x)", st);
    pid = fork(); if (pid == 0) { int rc = string_limits(); _exit(rc); } waitpid(pid, &st, 0);
    if (!(WIFEXITED(st) && (WEXITSTATUS(st) == 0 || WEXITSTATUS(st) == 1))) viol("string duplication checks died (status 0x%x)", st);
    pid = fork(); if (pid == 0) { whole_program(); _exit(0); } waitpid(pid, &st, 0);
    if (!(WIFEXITED(st) && WEXITSTATUS(st) == 0)) viol("whole-program run died (status 0x%x)", st);
    pid = fork(); if (pid == 0) { giant_blocks(); _exit(0); } waitpid(pid, &st, 0);
    if (!(WIFEXITED(st) && WEXITSTATUS(st) == 0)) viol("blocks of 1.5 GiB: process died (status 0x%x)", st);
    pid = fork(); if (pid == 0) { cross_thread_tiny(); _exit(0); } waitpid(pid, &st, 0);
    if (!(WIFEXITED(st) && WEXITSTATUS(st) == 0)) viol("cross-thread release of tiny blocks: process died (status 0x%x)", st);
  }
  // glibc's own allocator must have stayed unused by this process and all the containers/streams above
  struct mallinfo2 mi = mallinfo2();
  if (mi.uordblks != 0 || mi.arena != 0 || mi.hblkhd != 0) viol("glibc's allocator was used: mallinfo2 arena=%zu uordblks=%zu hblkhd=%zu", (size_t)mi.arena, (size_t)mi.uordblks, (size_t)mi.hblkhd);
  printf("{\"mode\":\"%s\",\"pairs\":%ld,\"ok\":%ld,\"nontrivial\":%ld,\"violations\":[", mode, sh->pairs, sh->ok, sh->nontrivial);
  for (int i = 0; i < sh->nviol; i++) { printf("%s\"", i ? "," : ""); for (const char* c = sh->viol[i]; *c; c++) { if (*c == '"' || *c == '\\') putchar('\\'); putchar(*c); } printf("\""); }
  printf("]}\n");
  return sh->nviol > 0 ? 1 : 0;
}
