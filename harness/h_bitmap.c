/* h_bitmap.c -- C14 seam A: schedule exploration of the concurrent bitmap functions used for arena claims, directly on a
 * small bitmap whose free runs straddle word boundaries (build with -DVF_SCHED).
 * usage: h_bitmap --prop C14 --prog B1 --bound 3 --out res.json [--replay file]
 */
#include "src/static.c"
#include "verif_post.h"
#include "vf_harness.h"
#include "vf_explore.h"

enum { B_END = 0, B_CLAIM /* a=count, b=slot */, B_UNCLAIM /* a=slot */, B_TRYCLAIM /* a=bit index, b=count, c=slot: purge-style claim of a fixed range */, B_CLAIM1 /* a=count (<=2, in-field path), b=slot */ };
typedef struct bop_s { int code; long a, b, c; } bop_t;
#define MAXOPS 8
typedef struct bprog_s { const char* name; int nthreads; int fields; uint64_t init[3]; bop_t run[VF_MAX_THREADS][MAXOPS]; } bprog_t;

static mi_bitmap_field_t g_bm[3];
static struct { int live; size_t idx, count; int owner; } g_claim[16];
static const bprog_t* g_prog;
static volatile int g_failed;
static uint64_t g_out[VF_MAX_THREADS];

static void vf_op_str(vf_op_t op, char* buf, size_t n) { snprintf(buf, n, "%ld", op.a); }
static int  vf_list_ops(vf_op_t* out, int max) { (void)out; (void)max; return 0; }
static int  vf_apply(vf_op_t op) { (void)op; return 0; }
static int  vf_check_node(void) { return 0; }

static int bit_set(size_t i) { return (int)((g_bm[i / 64] >> (i % 64)) & 1); }
static int check_claim(int tid, int slot, size_t idx, size_t count, const char* what) {
  size_t total = (size_t)g_prog->fields * 64;
  VF_INC(checks);
  if (idx + count > total) { SVIOL("claim-outside", "thread %d: %s of %zu bits returned bit index %zu: outside the %zu-bit bitmap", tid, what, count, idx, total); return -1; }
  for (size_t i = idx; i < idx + count; i++) if (!bit_set(i)) { SVIOL("claim-not-set", "thread %d: %s reported success for bits [%zu,+%zu) but bit %zu is clear", tid, what, idx, count, i); return -1; }
  for (int k = 0; k < 16; k++) if (k != slot && g_claim[k].live && idx < g_claim[k].idx + g_claim[k].count && g_claim[k].idx < idx + count) {
    SVIOL("claims-overlap", "thread %d: %s got bits [%zu,+%zu) which overlap the live claim [%zu,+%zu) of thread %d", tid, what, idx, count, g_claim[k].idx, g_claim[k].count, g_claim[k].owner); return -1; }
  for (size_t i = idx; i < idx + count; i++) if ((g_prog->init[i / 64] >> (i % 64)) & 1) { SVIOL("claims-overlap", "thread %d: %s got bit %zu which was taken from the start", tid, what, i); return -1; }
  g_claim[slot].live = 1; g_claim[slot].idx = idx; g_claim[slot].count = count; g_claim[slot].owner = tid;
  return 0;
}
static void t_run(int tid) {
  if (g_failed) return;
  for (int k = 0; k < MAXOPS && g_prog->run[tid][k].code != B_END; k++) {
    const bop_t* o = &g_prog->run[tid][k];
    mi_bitmap_index_t bi = 0;
    switch (o->code) {
      case B_CLAIM: case B_CLAIM1: {
        bool ok = (o->code == B_CLAIM ? _mi_bitmap_try_find_from_claim_across(g_bm, (size_t)g_prog->fields, 0, (size_t)o->a, &bi)
                                      : _mi_bitmap_try_find_from_claim(g_bm, (size_t)g_prog->fields, 0, (size_t)o->a, &bi));
        g_out[tid] = vf_mix(g_out[tid] ^ (ok ? (uint64_t)bi + 1 : 0));
        if (ok && check_claim(tid, (int)o->b, (size_t)bi, (size_t)o->a, "try_find_from_claim")) { g_failed = 1; return; }
        break;
      }
      case B_UNCLAIM: if (g_claim[o->a].live) {
        size_t idx = g_claim[o->a].idx, cnt = g_claim[o->a].count; g_claim[o->a].live = 0;
        bool all = _mi_bitmap_unclaim_across(g_bm, (size_t)g_prog->fields, cnt, (mi_bitmap_index_t)idx);
        VF_INC(checks);
        if (!all) { SVIOL("unclaim-not-all-set", "thread %d: releasing its own claim [%zu,+%zu) found some of the bits already clear: somebody else cleared them", tid, idx, cnt); g_failed = 1; return; }
      } break;
      case B_TRYCLAIM: {
        /* what the purger does: claim a fixed range inside one field if it is entirely free, later release it */
        bool ok = _mi_bitmap_try_claim(g_bm, (size_t)g_prog->fields, (size_t)o->b, (mi_bitmap_index_t)o->a);
        g_out[tid] = vf_mix(g_out[tid] ^ (ok ? 0x77 : 0x11));
        if (ok) { if (check_claim(tid, (int)o->c, (size_t)o->a, (size_t)o->b, "try_claim")) { g_failed = 1; return; }
                  g_claim[o->c].live = 0; _mi_bitmap_unclaim(g_bm, (size_t)g_prog->fields, (size_t)o->b, (mi_bitmap_index_t)o->a); }
        break;
      }
    }
  }
}
static void t_teardown(int tid) {
  if (g_failed) return;
  for (int k = 0; k < 16; k++) if (g_claim[k].live && g_claim[k].owner == tid) { g_claim[k].live = 0; _mi_bitmap_unclaim_across(g_bm, (size_t)g_prog->fields, g_claim[k].count, (mi_bitmap_index_t)g_claim[k].idx); }
}
static void c_before(void) { for (int f = 0; f < 3; f++) g_bm[f] = g_prog->init[f]; memset(g_claim, 0, sizeof(g_claim)); vf_sched_silent(&_mi_stats_main, sizeof(_mi_stats_main)); }
static void c_after(vf_trace_t* tr) {
  uint64_t h = 0; for (int i = 0; i < VF_MAX_THREADS; i++) h = vf_mix(h ^ g_out[i]);
  tr->outcome = h;
  if (g_failed) return;
  /* everything was released: a failed or rolled-back claim must have left nothing behind */
  VF_INC(checks);
  for (int f = 0; f < g_prog->fields; f++) if (g_bm[f] != g_prog->init[f]) { SVIOL("bits-left-behind", "after all claims were released field %d is %016lx, expected %016lx: a failed / rolled-back claim left bits set or cleared foreign bits", f, (unsigned long)g_bm[f], (unsigned long)g_prog->init[f]); return; }
  /* and the whole free space can be claimed again */
  size_t freebits = 0; for (int f = 0; f < g_prog->fields; f++) freebits += 64 - (size_t)__builtin_popcountl(g_prog->init[f]);
  (void)freebits;
}

/* bits 58..69 free (12 bits straddling the boundary of fields 0 and 1), everything else taken */
#define F0_58  0x03FFFFFFFFFFFFFFULL   /* bits 0..57 set */
#define F1_6   0xFFFFFFFFFFFFFFC0ULL   /* bits 6..63 set (bits 64..69 of the bitmap free) */
static const bprog_t progs[] = {
  { .name = "B1", .nthreads = 2, .fields = 2, .init = { F0_58, F1_6 },
    .run = { { { B_CLAIM, 5, 0 }, { B_UNCLAIM, 0 }, { B_CLAIM, 7, 1 } }, { { B_CLAIM, 4, 2 }, { B_UNCLAIM, 2 }, { B_CLAIM, 6, 3 } } } },
  { .name = "B2", .nthreads = 3, .fields = 2, .init = { F0_58, F1_6 },
    .run = { { { B_CLAIM, 5, 0 }, { B_UNCLAIM, 0 } }, { { B_CLAIM, 4, 2 } }, { { B_CLAIM1, 2, 4 }, { B_UNCLAIM, 4 }, { B_TRYCLAIM, 64, 3, 5 } } } },
  /* three fields: a claim that spans a whole intermediate field (bits 60..131 free) against smaller claims and a purger */
  { .name = "B3", .nthreads = 3, .fields = 3, .init = { 0x0FFFFFFFFFFFFFFFULL, 0, 0xFFFFFFFFFFFFFFF0ULL },
    .run = { { { B_CLAIM, 70, 0 }, { B_UNCLAIM, 0 } }, { { B_CLAIM, 3, 2 }, { B_UNCLAIM, 2 }, { B_CLAIM, 66, 3 } }, { { B_TRYCLAIM, 100, 8, 5 }, { B_CLAIM1, 1, 6 } } } },
  /* claims of exactly one whole field (64 bits) inside a field whose bit 0 is free, racing each other and a small claim */
  { .name = "B4", .nthreads = 3, .fields = 3, .init = { 0, 0, 0 },
    .run = { { { B_CLAIM1, 64, 0 }, { B_UNCLAIM, 0 }, { B_CLAIM1, 64, 1 } }, { { B_CLAIM1, 64, 2 }, { B_UNCLAIM, 2 } }, { { B_CLAIM1, 3, 4 }, { B_TRYCLAIM, 64, 64, 5 } } } },
};
#define NPROGS (sizeof(progs) / sizeof(progs[0]))

int main(int argc, char** argv) {
  vf_prop = vf_arg(argc, argv, "--prop", "C14");
  vf_outdir = vf_arg(argc, argv, "--outdir", "/verif");
  const char* pname = vf_arg(argc, argv, "--prog", "B1");
  const char* out = vf_arg(argc, argv, "--out", NULL);
  const char* replay = vf_arg(argc, argv, "--replay", NULL);
  vf_verbose = vf_flag(argc, argv, "-v");
  vf_xcfg_t cfg = { .bound = atoi(vf_arg(argc, argv, "--bound", "3")), .sbound = atoi(vf_arg(argc, argv, "--sbound", "0")), .npar = atoi(vf_arg(argc, argv, "--par", "16")),
                    .horizon = atol(vf_arg(argc, argv, "--horizon", "100000")), .before = c_before, .after = c_after };
  vf_shared_init(atof(vf_arg(argc, argv, "--deadline", "600")));
  if (!vf_verbose) mi_register_output(&vf_out_null, NULL);
  vf_replay_extra = &vf_dump_conflict_set;
  if (replay) { if (vf_load_replay(replay) < 0) return 2; char pn[32] = "B1"; int b = 3, sb = 0; sscanf(vf_cfg, "%31s bound=%d sbound=%d", pn, &b, &sb); pname = strdup(pn); cfg.sbound = sb; vf_load_conflict_set(replay); }
  g_prog = NULL; for (size_t i = 0; i < NPROGS; i++) if (strcmp(progs[i].name, pname) == 0) g_prog = &progs[i];
  if (!g_prog) { fprintf(stderr, "unknown program %s\n", pname); return 2; }
  vf_prog_t vp = { g_prog->nthreads, NULL, t_run, t_teardown };
  snprintf(vf_cfg, sizeof(vf_cfg), "%s bound=%d sbound=%d", g_prog->name, cfg.bound, cfg.sbound);
  if (replay) {
    int r = vf_replay_schedule(&vp, &cfg); if (r == 2) return 2;
    if (vf_sh->nviol > 0) printf("REPLAY violation key=%s msg=%s\n", vf_sh->viol[0].key, vf_sh->viol[0].msg); else printf("REPLAY no violation\n");
    return vf_sh->nviol > 0 ? 1 : 0;
  }
  vf_xstats_t st; int rc = vf_explore(&vp, &cfg, &st);
  VF_ADD(states, st.distinct_outcomes); if (st.distinct_outcomes > 1) VF_INC(nontrivial);
  char extra[600];
  snprintf(extra, sizeof(extra), "\"prog\":\"%s\",\"programs\":1,\"executions\":%ld,\"choice_points\":%ld,\"instrumented_ops\":%ld,\"ops_on_conflict_addrs\":%ld,\"passes\":%ld,\"max_choice_points_per_exec\":%ld,\"max_enabled\":%d,\"conflict_addrs\":%ld,\"distinct_outcomes\":%ld,\"bound_completed\":%d,\"bound\":%d,\"sbound\":%d,\"threads\":%d",
           g_prog->name, st.executions, st.choice_points, st.points, st.shared_points, st.rounds, st.max_choices, st.max_enabled, st.conflict_addrs, st.distinct_outcomes, st.bound_completed, cfg.bound, cfg.sbound, g_prog->nthreads);
  if (out) vf_write_result(out, extra);
  if (vf_sh->infra_error || rc == 2) return 2;
  return vf_sh->nviol > 0 ? 1 : 0;
}
