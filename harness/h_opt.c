/* h_opt.c -- C20: options, environment parsing and diagnostic output: total and memory safe.
 *   sec a  every option index (and legacy name) x every well-formed value form, parsed by the real mi_option_init from the
 *          real environment; read back ALL options; reference parser in the harness; malformed values leave the default;
 *          mi_option_set/get/enable/disable/set_default round trips
 *   sec b  environment values and look-alike names of every length 0..300 and the power-of-two boundaries up to 8192 (+70000)
 *   sec c  _mi_snprintf: every buffer size 0..80 x grammar-generated formats x boundary arguments, destination flush against
 *          a PROT_NONE page; _mi_strlcpy/_mi_strlcat all dest sizes 0..40 x source lengths 0..80
 *   sec d  mi_stats_get_json(n, buf) for every n in 0..len+64 with the same guard-page placement, heap-allocated result
 *          syntactically valid JSON; mi_stats_print_out, mi_options_print, > 16 KiB through the delayed output buffer
 *   sec e  (--mode exec) this binary re-executed with one MIMALLOC_* variable set: the constructor path parses it
 * Built also with -fsanitize=address (variant asan) so that stack/global buffer overruns inside mimalloc are caught.
 */
#include "src/static.c"
#include "verif_post.h"
#include "vf_harness.h"
#include <limits.h>
#include <ctype.h>

extern char** environ;
static char g_desc[400];
static void vf_op_str(vf_op_t op, char* buf, size_t n) { snprintf(buf, n, "sec%ld(%ld)", op.a, op.b); }
static int  vf_list_ops(vf_op_t* out, int max) { (void)out; (void)max; return 0; }
static int  vf_apply(vf_op_t op) { (void)op; return 0; }
static int  vf_check_node(void) { return 0; }
#define VIOL(key, ...) do { char m_[600]; snprintf(m_, sizeof(m_), __VA_ARGS__); vf_violation(key, "%s", m_); } while (0)
#define CASE(sec, arg) do { vf_path[0].code = 1; vf_path[0].a = (sec); vf_path[0].b = (long)(arg); vf_depth = 1; } while (0)
static long g_only = -1;

/* ---------------- reference parser (independent of options.c) ----------------------------------------- */
static mi_option_desc_t g_defaults[_mi_option_last];
enum { R_DEFAULT = 0, R_VALUE = 1, R_EITHER = 2, R_SKIP = 3 };   /* EITHER: value or saturation (documented ambiguity), SKIP: outside the claim */
static int is_sub(const char* hay, const char* needle) { return strstr(hay, needle) != NULL; }
static const long SAT_KIB = (long)(MI_MAX_ALLOC_SIZE / MI_KiB);
static int ref_parse(int opt, const char* val, long* out, long* alt) {
  char up[80]; size_t n = strlen(val); if (n > 64) return R_SKIP;          /* longer values are truncated to the 64-byte buffer: safety only (sec b) */
  for (size_t i = 0; i < n; i++) up[i] = (val[i] >= 'a' && val[i] <= 'z') ? (char)(val[i] - 32) : val[i];
  up[n] = 0;
  if (n == 0) { *out = 1; return R_VALUE; }
  if (is_sub("1;TRUE;YES;ON", up)) { *out = 1; if (strcmp(up, "1") && strcmp(up, "TRUE") && strcmp(up, "YES") && strcmp(up, "ON")) return R_SKIP; return R_VALUE; }
  if (is_sub("0;FALSE;NO;OFF", up)) { *out = 0; if (strcmp(up, "0") && strcmp(up, "FALSE") && strcmp(up, "NO") && strcmp(up, "OFF")) return R_SKIP; return R_VALUE; }
  /* strict integer grammar: [+-]? digits; anything strtol would additionally accept (leading blanks) is outside the claim */
  const char* p = up; int neg = 0;
  if (*p == ' ' || *p == '\t') return R_SKIP;
  if (*p == '+' || *p == '-') { neg = (*p == '-'); p++; }
  if (!(*p >= '0' && *p <= '9')) return R_DEFAULT;
  __uint128_t v = 0; int big = 0;
  while (*p >= '0' && *p <= '9') { v = v * 10 + (unsigned)(*p - '0'); if (v > ((__uint128_t)1 << 100)) big = 1; p++; }
  long value;
  if (neg) value = (big || v > (__uint128_t)LONG_MAX + 1) ? LONG_MIN : (long)(-(__int128_t)v);
  else     value = (big || v > (__uint128_t)LONG_MAX) ? LONG_MAX : (long)v;
  int kib = (opt == mi_option_reserve_os_memory || opt == mi_option_arena_reserve);
  if (!kib) { if (*p != 0) return R_DEFAULT; *out = value; return R_VALUE; }
  __uint128_t size = (value < 0 ? 0 : (__uint128_t)value);
  __uint128_t mult = 0;
  if (*p == 'K') { mult = 1; p++; } else if (*p == 'M') { mult = MI_KiB; p++; } else if (*p == 'G') { mult = MI_MiB; p++; } else if (*p == 'T') { mult = MI_GiB; p++; }
  if (mult == 0) size = (size + MI_KiB - 1) / MI_KiB; else size = size * mult;
  if (p[0] == 'I' && p[1] == 'B') p += 2; else if (*p == 'B') p++;
  if (*p != 0) return R_DEFAULT;
  /* documented: "saturation on overflow". The implementation saturates to MI_MAX_ALLOC_SIZE/KiB when the KiB count overflows
     size_t or exceeds MI_MAX_ALLOC_SIZE; between SAT and MI_MAX_ALLOC_SIZE both the exact value and the saturated one are accepted */
  if (size <= (__uint128_t)SAT_KIB) { *out = (long)size; return R_VALUE; }
  if (size > (__uint128_t)MI_MAX_ALLOC_SIZE) { *out = SAT_KIB; return R_VALUE; }
  *out = (long)size; *alt = SAT_KIB; return R_EITHER;
}

/* ---------------- set one variable in a private environment, re-initialise all options, read back ------------ */
static char* g_env[4]; static char g_envbuf[80000];
static void reset_options(void) { for (int k = 0; k < _mi_option_last; k++) { options[k].value = g_defaults[k].value; options[k].init = (g_defaults[k].init == INITIALIZED ? INITIALIZED : UNINIT); } }
static int check_one(int opt, const char* name, const char* val, long caseno) {
  CASE(1, caseno); VF_INC(nodes); VF_INC(transitions);
  snprintf(g_envbuf, sizeof(g_envbuf), "%s=%s", name, val);
  g_env[0] = g_envbuf; g_env[1] = NULL;
  char** saved = environ; environ = g_env;
  reset_options();
  long got[_mi_option_last];
  for (int k = 0; k < _mi_option_last; k++) got[k] = mi_option_get((mi_option_t)k);
  environ = saved;
  long exp = 0, alt = 0; int r = ref_parse(opt, val, &exp, &alt);
  VF_INC(checks);
  snprintf(g_desc, sizeof(g_desc), "%s=\"%.80s\"", name, val);
  if (r == R_VALUE && got[opt] != exp) { VIOL("option-value", "%s: mi_option_get gives %ld, documented value %ld", g_desc, got[opt], exp); return -1; }
  if (r == R_EITHER && got[opt] != exp && got[opt] != alt) { VIOL("option-value", "%s: mi_option_get gives %ld, expected %ld (or saturated %ld)", g_desc, got[opt], exp, alt); return -1; }
  if (r == R_DEFAULT && got[opt] != g_defaults[opt].value) { VIOL("malformed-accepted", "%s: malformed value changed the option to %ld (default %ld)", g_desc, got[opt], g_defaults[opt].value); return -1; }
  for (int k = 0; k < _mi_option_last; k++) if (k != opt && got[k] != g_defaults[k].value) {
    /* guarded_min/guarded_max keep min <= max by adjusting each other: documented coupling */
    if ((opt == mi_option_guarded_min && k == mi_option_guarded_max) || (opt == mi_option_guarded_max && k == mi_option_guarded_min)) continue;
    VIOL("other-option-changed", "%s: option '%s' changed to %ld (default %ld)", g_desc, options[k].name, got[k], g_defaults[k].value); return -1;
  }
  if (r == R_VALUE && exp != g_defaults[opt].value) VF_INC(nontrivial);
  return 0;
}
static void upper(char* d, const char* s) { for (; *s; s++, d++) *d = (char)toupper((unsigned char)*s); *d = 0; }
/* reads memory next to a global on purpose (under AddressSanitizer that is the red zone: its contents must not change either) */
__attribute__((no_sanitize_address, noinline)) static void raw_copy(unsigned char* d, const volatile unsigned char* s_, size_t n) { for (size_t i = 0; i < n; i++) d[i] = s_[i]; }
static void sec_a(void) {
  static const char* bools[] = { "", "1", "0", "true", "false", "yes", "no", "on", "off", "TRUE", "FALSE", "YES", "NO", "ON", "OFF", "True", "fAlSe", "Yes", "oN", "Off" };
  static const char* ints[] = { "-1", "0", "1", "10", "+7", "2147483647", "2147483648", "-2147483649", "9223372036854775807", "9223372036854775808", "-9223372036854775808", "-9223372036854775809",
                                "123456789012345678901234567890", "-123456789012345678901234567890", "007", "100", "4096", "65536" };
  static const char* bad[] = { "1.5", "0x10", "12Q", "abc", "1 2", "5 ", "--1", "1-", "1e3", "12,3", "\xC3\xA9", "1\xC2\xA0", "\xEF\xBC\x91", "1;", "12K3", "7KK", "5MBB", "5iB", "5Bi", "tru", "yess", "2;TRUE", "10%", "#1", "1\t", "0.0" };
  static const char* sizes_n[] = { "0", "1", "1023", "1024", "1025", "4095", "65536", "2147483648", "4294967295", "4294967296", "17179869184", "17179869189", "34359738368", "268435456", "274877906816", "274877906817",
                                   "281474976710656", "18014398509481984", "9007199254740993", "9223372036854775807", "9223372036854775808", "99999999999999999", "123456789012345678901234567890" };
  static const char* suff[] = { "", "K", "M", "G", "T", "k", "m", "g", "t" };
  static const char* suff2[] = { "", "B", "iB", "b", "ib", "IB" };
  long caseno = 0;
  char name[160], uname[160], val[200];
  for (int opt = 0; opt < _mi_option_last; opt++) {
    const char* names[2] = { options[opt].name, options[opt].legacy_name };
    for (int ni = 0; ni < 2; ni++) {
      if (names[ni] == NULL) continue;
      for (int cs = 0; cs < 3; cs++) {
        snprintf(name, sizeof(name), "mimalloc_%s", names[ni]);
        if (cs == 0) { upper(uname, name); } else if (cs == 1) { strcpy(uname, name); } else { upper(uname, name); for (size_t i = 0; uname[i]; i += 2) uname[i] = (char)tolower((unsigned char)uname[i]); }
        if (cs > 0 && (opt % 5) != 0) continue;      /* lower and mixed case names on every 5th option */
#define ONE(v) do { long my = caseno++; if (g_only < 0 || g_only == my) { if (check_one(opt, uname, (v), my)) return; } } while (0)
        for (size_t i = 0; i < sizeof(bools) / sizeof(bools[0]); i++) ONE(bools[i]);
        for (size_t i = 0; i < sizeof(ints) / sizeof(ints[0]); i++) ONE(ints[i]);
        for (size_t i = 0; i < sizeof(bad) / sizeof(bad[0]); i++) ONE(bad[i]);
        int kib = (opt == mi_option_reserve_os_memory || opt == mi_option_arena_reserve);
        for (size_t a = 0; a < sizeof(sizes_n) / sizeof(sizes_n[0]); a++) for (size_t b = 0; b < sizeof(suff) / sizeof(suff[0]); b++) for (size_t c = 0; c < sizeof(suff2) / sizeof(suff2[0]); c++) {
          if (!kib && (a % 6 != 0 || c > 1)) continue;      /* other options: suffixes are malformed; a thinner grid suffices */
          snprintf(val, sizeof(val), "%s%s%s", sizes_n[a], suff[b], suff2[c]);
          ONE(val);
        }
      }
    }
  }
  /* API round trips */
  CASE(2, 0);
  reset_options();
  for (int opt = 0; opt < _mi_option_last; opt++) {
    if (opt == mi_option_guarded_min || opt == mi_option_guarded_max) continue;
    static const long vals[] = { 0, 1, -1, 10, 4096, LONG_MAX, LONG_MIN };
    for (size_t i = 0; i < sizeof(vals) / sizeof(vals[0]); i++) {
      VF_INC(nodes); VF_INC(transitions); VF_INC(checks);
      mi_option_set((mi_option_t)opt, vals[i]);
      if (mi_option_get((mi_option_t)opt) != vals[i]) { VIOL("option-roundtrip", "mi_option_set(%s, %ld) reads back %ld", options[opt].name, vals[i], mi_option_get((mi_option_t)opt)); return; }
      mi_option_set_default((mi_option_t)opt, 77);    /* must not override an explicitly set option */
      if (mi_option_get((mi_option_t)opt) != vals[i]) { VIOL("option-roundtrip", "mi_option_set_default overrode an explicit value of %s", options[opt].name); return; }
    }
    mi_option_enable((mi_option_t)opt);  if (!mi_option_is_enabled((mi_option_t)opt) || mi_option_get((mi_option_t)opt) != 1) { VIOL("option-roundtrip", "mi_option_enable(%s)", options[opt].name); return; }
    mi_option_disable((mi_option_t)opt); if (mi_option_is_enabled((mi_option_t)opt)) { VIOL("option-roundtrip", "mi_option_disable(%s)", options[opt].name); return; }
    mi_option_set_enabled((mi_option_t)opt, true); if (mi_option_get((mi_option_t)opt) != 1) { VIOL("option-roundtrip", "mi_option_set_enabled(%s)", options[opt].name); return; }
    for (int k = 0; k < _mi_option_last; k++) if (k > opt && k != mi_option_guarded_min && k != mi_option_guarded_max && mi_option_get((mi_option_t)k) != g_defaults[k].value) { VIOL("other-option-changed", "setting %s changed %s", options[opt].name, options[k].name); return; }
  }
#if !MI_DEBUG   /* debug builds assert on an out-of-range index by design */
  { long before[_mi_option_last]; for (int k = 0; k < _mi_option_last; k++) before[k] = options[k].value;
    /* (what lies directly behind the table must not change either: an index one past the end is out of range too) */
    unsigned char behind0[sizeof(mi_option_desc_t)], behind1[sizeof(mi_option_desc_t)]; const unsigned char* behind = (const unsigned char*)((uintptr_t)&options[0] + sizeof(options));
    raw_copy(behind0, behind, sizeof(behind0));
    mi_option_set((mi_option_t)-1, 5); mi_option_set(_mi_option_last, 5); mi_option_set((mi_option_t)1000, 5); mi_option_enable((mi_option_t)-1); mi_option_set_default(_mi_option_last, 3);
    if (mi_option_get((mi_option_t)-1) != 0 || mi_option_get(_mi_option_last) != 0) { VIOL("option-range", "out-of-range option index reads non-zero"); return; }
    for (int k = 0; k < _mi_option_last; k++) if (before[k] != options[k].value) { VIOL("option-range", "out-of-range index changed option %s", options[k].name); return; }
    raw_copy(behind1, behind, sizeof(behind1));
    if (memcmp(behind0, behind1, sizeof(behind0)) != 0) { VIOL("option-range", "setting an out-of-range option index wrote behind the option table"); return; }
    VF_INC(nodes); }
#endif
  reset_options();
}

/* ---------------- sec b: long values / look-alike names ------------------------------------------------- */
static void sec_b(void) {
  static const int extra[] = { 511, 512, 513, 1023, 1024, 1025, 4095, 4096, 4097, 8191, 8192, 8193, 70000 };
  long caseno = 0;
  for (int li = 0; li <= 300 + 13; li++) {
    int L = (li <= 300 ? li : extra[li - 301]);
    for (int kind = 0; kind < 6; kind++) for (int oi = 0; oi < 3; oi++) {
      long my = caseno++;
      if (g_only >= 0 && g_only != my) continue;
      CASE(3, my); VF_INC(nodes); VF_INC(transitions);
      int opt = (oi == 0 ? mi_option_verbose : oi == 1 ? mi_option_arena_reserve : mi_option_purge_delay);
      char* e = g_envbuf; size_t at = 0;
      char nm[128]; char up[128]; snprintf(nm, sizeof(nm), "mimalloc_%s", options[opt].name); upper(up, nm);
      int lookalike = (kind >= 4);
      at += (size_t)snprintf(e + at, sizeof(g_envbuf) - at, "%s", up);
      if (lookalike) { /* a longer variable name with the option name as a prefix: must not be taken for the option */
        for (int i = 0; i < (kind == 4 || L == 0 ? 1 : L) && at < sizeof(g_envbuf) - 10; i++) e[at++] = 'X'; e[at++] = '='; e[at++] = '1'; e[at] = 0;
      } else {
        e[at++] = '=';
        char c = (kind == 0 ? 'x' : kind == 1 ? '1' : kind == 2 ? ' ' : '\xFF');
        for (int i = 0; i < L && at < sizeof(g_envbuf) - 2; i++) e[at++] = c; e[at] = 0;
      }
      g_env[0] = g_envbuf; g_env[1] = NULL;
      char** saved = environ; environ = g_env;
      reset_options();
      long got[_mi_option_last];
      for (int k = 0; k < _mi_option_last; k++) got[k] = mi_option_get((mi_option_t)k);
      environ = saved;
      VF_INC(checks);
      for (int k = 0; k < _mi_option_last; k++) if (k != opt && got[k] != g_defaults[k].value) { VIOL("other-option-changed", "environment value of length %d (kind %d) for %s changed option %s", L, kind, up, options[k].name); return; }
      if (lookalike && got[opt] != g_defaults[opt].value) { VIOL("lookalike-name", "variable %sX...=1 was taken for option %s", up, options[opt].name); return; }
      if (!lookalike && kind == 0 && L > 0 && L != 1 && got[opt] != g_defaults[opt].value && !(L <= 64 && 0)) {
        /* 'xxx..' is malformed (not a substring of the boolean words for L>=1): default stays */
        VIOL("malformed-accepted", "%s=x*%d changed the option to %ld", up, L, got[opt]); return;
      }
      if (L > 64) VF_INC(nontrivial);
    }
  }
  reset_options();
}

/* ---------------- guard-page buffers ------------------------------------------------------------------------ */
static uint8_t* g_guard_base;           /* 64 KiB RW followed by one PROT_NONE page */
#define GUARD_RW (64 * 1024)
static void guard_init(void) {
  g_guard_base = (uint8_t*)vf_real_mmap(NULL, GUARD_RW + 4096, PROT_READ | PROT_WRITE, MAP_PRIVATE | MAP_ANONYMOUS, -1, 0);
  mprotect(g_guard_base + GUARD_RW, 4096, PROT_NONE);
}
/* buffer of `size` bytes that ends exactly at the inaccessible page; the 64 bytes before it hold a canary */
static char* guard_buf(size_t size) { uint8_t* b = g_guard_base + GUARD_RW - size; memset(b - 64, 0xA5, 64); memset(b, 0x5A, size); return (char*)b; }
static int canary_ok(const char* buf) { const uint8_t* b = (const uint8_t*)buf; for (int i = 1; i <= 64; i++) if (b[-i] != 0xA5) return 0; return 1; }

/* ---------------- sec c: printf family ------------------------------------------------------------------------ */
static char g_big[8192];
typedef struct farg_s { int kind; long long ll; const char* s; } farg_t;   /* kind: 0 int-like, 1 string, 2 none */
static int fmt_call(char* buf, size_t size, const char* fmt, char conv, const char* lenmod, const farg_t* a) {
  if (conv == 's') return _mi_snprintf(buf, size, fmt, a->s);
  if (conv == '%' || a->kind == 2) return _mi_snprintf(buf, size, fmt, 0);
  if (conv == 'p') return _mi_snprintf(buf, size, fmt, (void*)(uintptr_t)a->ll);
  if (strcmp(lenmod, "z") == 0 || strcmp(lenmod, "t") == 0) return _mi_snprintf(buf, size, fmt, (size_t)a->ll);
  if (strcmp(lenmod, "l") == 0) return _mi_snprintf(buf, size, fmt, (long)a->ll);
  if (strcmp(lenmod, "ll") == 0 || strcmp(lenmod, "L") == 0) return _mi_snprintf(buf, size, fmt, (long long)a->ll);
  return _mi_snprintf(buf, size, fmt, (int)a->ll);
}
static void sec_c(void) {
  static const char* flags[] = { "", "+", " ", "-", "0", "-0", "+0" };
  static const char* widths[] = { "", "1", "2", "5", "12", "40", "100" };
  static const char* lens[] = { "", "l", "ll", "z", "t", "L" };
  static const char convs[] = { 'd', 'i', 'u', 'x', 'p', 's', '%', 'q', 'c' };
  static const long long iargs[] = { 0, 1, -1, 9, 10, 255, 256, 65535, INT_MAX, INT_MIN, (long long)UINT_MAX, LLONG_MAX, LLONG_MIN, -1234567890123LL };
  static const char* sargs[] = { "", "a", "hello", "0123456789012345678901234567890123456789", NULL };
  long caseno = 0;
  for (size_t fi = 0; fi < 7; fi++) for (size_t wi = 0; wi < 7; wi++) for (size_t li = 0; li < 6; li++) for (size_t ci = 0; ci < sizeof(convs); ci++) {
    char conv = convs[ci];
    if ((conv == 's' || conv == '%' || conv == 'q' || conv == 'c') && li > 0) continue;
    char fmt[64]; snprintf(fmt, sizeof(fmt), "<%%%s%s%s%c>|", flags[fi], widths[wi], lens[li], conv);
    size_t nargs = (conv == 's' ? 5 : (conv == '%' || conv == 'q' || conv == 'c') ? 1 : sizeof(iargs) / sizeof(iargs[0]));
    for (size_t ai = 0; ai < nargs; ai++) {
      long my = caseno++;
      if (g_only >= 0 && g_only != my) continue;
      CASE(4, my); VF_INC(nodes);
      farg_t a = { conv == 's' ? 1 : (conv == '%' || conv == 'q' || conv == 'c') ? 2 : 0, conv == 's' ? 0 : iargs[ai < sizeof(iargs) / sizeof(iargs[0]) ? ai : 0], conv == 's' ? sargs[ai] : NULL };
      /* the untruncated output first */
      memset(g_big, 0x77, sizeof(g_big));
      int full = fmt_call(g_big, sizeof(g_big), fmt, conv, lens[li], &a);
      if (full < 0 || (size_t)full >= sizeof(g_big) || g_big[full] != 0 || strlen(g_big) != (size_t)full) { VIOL("printf-return", "format \"%s\": returned %d but strlen is %zu", fmt, full, strlen(g_big)); return; }
      for (size_t size = 0; size <= 80; size++) {
        VF_INC(transitions); VF_INC(checks);
        char* buf = guard_buf(size);
        int r = fmt_call(buf, size, fmt, conv, lens[li], &a);     /* a write past the buffer hits the PROT_NONE page */
        if (!canary_ok(buf)) { VIOL("printf-underflow", "format \"%s\" size %zu: bytes before the buffer were modified", fmt, size); return; }
        if (size == 0) { if (r != 0) { VIOL("printf-return", "format \"%s\" size 0 returned %d", fmt, r); return; } continue; }
        if (r < 0 || (size_t)r > size - 1) { VIOL("printf-return", "format \"%s\" size %zu: returned %d > size-1", fmt, size, r); return; }
        if (buf[r] != 0) { VIOL("printf-unterminated", "format \"%s\" size %zu: no terminator at the returned length %d", fmt, size, r); return; }
        if (strlen(buf) != (size_t)r) { VIOL("printf-return", "format \"%s\" size %zu: returned %d but strlen is %zu", fmt, size, r, strlen(buf)); return; }
        if ((size_t)full <= size - 1 && strcmp(buf, g_big) != 0) { VIOL("printf-differs", "format \"%s\" size %zu: output \"%s\" differs from the untruncated output \"%s\" although it fits", fmt, size, buf, g_big); return; }
      }
      if (full > 8) VF_INC(nontrivial);
    }
  }
  /* formats with several conversions as they occur in the sources */
  static const char* multi[] = { "%s{ \"total\": %lld, \"peak\": %lld, \"current\": %lld, \"block_size\": %zu, \"page_size\": %zu }%s\n", "option '%s': %ld %s\n",
      "unable to allocate OS memory (error: %d (0x%x), addr: %p, size: 0x%zx bytes, align: 0x%zx, commit: %d, allow large: %d)\n", "%10s: %5ld.%ld %-3s", "/sys/devices/system/node/node%u", "v%i.%i.%i%s%s (built on %s, %s)\n" };
  for (size_t mi = 0; mi < 6; mi++) for (size_t size = 0; size <= 160; size++) {
    long my = caseno++; if (g_only >= 0 && g_only != my) continue;
    CASE(4, my); VF_INC(nodes); VF_INC(transitions); VF_INC(checks);
    char* buf = guard_buf(size); int r = 0;
    switch (mi) {
      case 0: r = _mi_snprintf(buf, size, multi[0], "    ", (long long)LLONG_MAX, (long long)LLONG_MIN, (long long)-5, (size_t)SIZE_MAX, (size_t)65536, ","); break;
      case 1: r = _mi_snprintf(buf, size, multi[1], "arena_reserve", (long)LONG_MIN, "KiB"); break;
      case 2: r = _mi_snprintf(buf, size, multi[2], 12, 12, (void*)UINTPTR_MAX, (size_t)SIZE_MAX, (size_t)1 << 40, 1, 0); break;
      case 3: r = _mi_snprintf(buf, size, multi[3], "committed", (long)-99999, (long)7, "MiB"); break;
      case 4: r = _mi_snprintf(buf, size, multi[4], (unsigned)UINT_MAX); break;
      case 5: r = _mi_snprintf(buf, size, multi[5], 2, 2, 3, ", release", "", "Jan  1 2026", "00:00:00"); break;
    }
    if (!canary_ok(buf)) { VIOL("printf-underflow", "multi format %zu size %zu", mi, size); return; }
    if (size > 0 && (r < 0 || (size_t)r > size - 1 || buf[r] != 0 || strlen(buf) != (size_t)r)) { VIOL("printf-unterminated", "format \"%s\" size %zu: returned %d", multi[mi], size, r); return; }
  }
  /* strlcpy / strlcat */
  char src[128];
  for (size_t ds = 0; ds <= 40; ds++) for (size_t sl = 0; sl <= 80; sl++) for (int cat = 0; cat < 3; cat++) {
    long my = caseno++; if (g_only >= 0 && g_only != my) continue;
    CASE(4, my); VF_INC(nodes); VF_INC(transitions); VF_INC(checks);
    memset(src, 'a' + (int)(sl % 26), sl); src[sl] = 0;
    char* buf = guard_buf(ds);
    size_t pre = 0;
    if (cat == 0) _mi_strlcpy(buf, src, ds);
    else { pre = (cat == 1 ? (ds > 3 ? 3 : (ds > 0 ? ds - 1 : 0)) : (ds > 0 ? ds - 1 : 0)); if (ds > 0) { memset(buf, 'P', pre); buf[pre] = 0; } _mi_strlcat(buf, src, ds); }
    if (!canary_ok(buf)) { VIOL("strl-underflow", "dest size %zu src len %zu", ds, sl); return; }
    if (ds == 0) continue;
    size_t want = pre + sl; if (want > ds - 1) want = ds - 1;
    if (strnlen(buf, ds) != want) { VIOL("strl-result", "%s dest size %zu, prefix %zu, src len %zu: result length %zu, expected %zu", cat ? "_mi_strlcat" : "_mi_strlcpy", ds, pre, sl, strnlen(buf, ds), want); return; }
    for (size_t i = 0; i < want; i++) if (buf[i] != (i < pre ? 'P' : src[i - pre])) { VIOL("strl-result", "wrong byte %zu", i); return; }
  }
}

/* ---------------- sec d: JSON statistics and other diagnostic output ------------------------------------------- */
/* minimal JSON syntax check */
static const char* js_ws(const char* p) { while (*p == ' ' || *p == '\n' || *p == '\r' || *p == '\t') p++; return p; }
static const char* js_value(const char* p, int depth);
static const char* js_string(const char* p) { if (*p != '"') return NULL; p++; while (*p && *p != '"') { if (*p == '\\') { p++; if (!*p) return NULL; } p++; } return (*p == '"') ? p + 1 : NULL; }
static const char* js_value(const char* p, int depth) {
  if (depth > 20) return NULL;
  p = js_ws(p);
  if (*p == '{') { p = js_ws(p + 1); if (*p == '}') return p + 1; for (;;) { p = js_ws(p); p = js_string(p); if (!p) return NULL; p = js_ws(p); if (*p != ':') return NULL; p = js_value(p + 1, depth + 1); if (!p) return NULL; p = js_ws(p); if (*p == ',') { p++; continue; } if (*p == '}') return p + 1; return NULL; } }
  if (*p == '[') { p = js_ws(p + 1); if (*p == ']') return p + 1; for (;;) { p = js_value(p, depth + 1); if (!p) return NULL; p = js_ws(p); if (*p == ',') { p++; continue; } if (*p == ']') return p + 1; return NULL; } }
  if (*p == '"') return js_string(p);
  if (*p == '-' || (*p >= '0' && *p <= '9')) { if (*p == '-') p++; if (!(*p >= '0' && *p <= '9')) return NULL; while ((*p >= '0' && *p <= '9') || *p == '.' || *p == 'e' || *p == 'E' || *p == '+' || *p == '-') p++; return p; }
  if (!strncmp(p, "true", 4)) return p + 4; if (!strncmp(p, "false", 5)) return p + 5; if (!strncmp(p, "null", 4)) return p + 4;
  return NULL;
}
static size_t g_cb_bytes; static int g_cb_calls; static int g_cb_bad;
static void out_cb(const char* msg, void* arg) { (void)arg; g_cb_calls++; if (msg == NULL) { g_cb_bad = 1; return; } size_t n = strnlen(msg, 1 << 20); if (n >= (1 << 20)) g_cb_bad = 1; g_cb_bytes += n; }
static void sec_d(void) {
  CASE(5, 0);
  /* some activity so that the statistics are not all zero */
  for (int i = 0; i < 200; i++) { void* p = mi_malloc((size_t)(i * 37 + 1)); mi_free(p); }
  void* big = mi_malloc(3 * MI_MiB); mi_free(big); mi_collect(false);
  char* full = mi_stats_get_json(0, NULL);
  VF_INC(nodes); VF_INC(checks);
  if (full == NULL) { VIOL("json-null", "mi_stats_get_json(0,NULL) returned NULL"); return; }
  size_t flen = strlen(full);
  { const char* e = js_value(full, 0); if (e == NULL || *js_ws(e) != 0) { VIOL("json-invalid", "the heap-allocated statistics text (%zu bytes) is not syntactically valid JSON near offset %ld", flen, e ? (long)(e - full) : -1L); return; } }
  if (!mi_is_in_heap_region(full)) { VIOL("json-not-heap", "result of mi_stats_get_json(0,NULL) is not a heap block"); return; }
  char* again = mi_stats_get_json(123, NULL);   /* NULL buffer with a size: also heap allocated */
  if (again == NULL) { VIOL("json-null", "mi_stats_get_json(123,NULL) returned NULL"); return; }
  mi_free(again);
  /* stable prefix for comparison: up to the process info (times and rss vary between calls) */
  size_t stable = (size_t)(strstr(full, "\"process\"") ? strstr(full, "\"process\"") - full : 0);
  vf_sample("mi_stats_get_json: %zu bytes of JSON; caller buffers of every size 0..%zu checked against a PROT_NONE page", flen, flen + 64);
  for (size_t n = 0; n <= flen + 64; n++) {
    if (g_only >= 0 && (size_t)g_only != n) continue;
    CASE(5, n); VF_INC(nodes); VF_INC(transitions); VF_INC(checks);
    if (n == 0) { char* r = mi_stats_get_json(0, guard_buf(0)); if (r == NULL) { VIOL("json-null", "size 0 with a buffer"); return; } mi_free(r); continue; }
    if (n > GUARD_RW - 128) break;
    char* buf = guard_buf(n);
    char* r = mi_stats_get_json(n, buf);
    if (!canary_ok(buf)) { VIOL("json-underflow", "mi_stats_get_json(%zu, buf) modified bytes before the buffer", n); return; }
    if (r != buf) { VIOL("json-return", "mi_stats_get_json(%zu, buf) returned %p, expected the buffer", n, (void*)r); return; }
    size_t len = strnlen(buf, n);
    if (len >= n) { VIOL("json-unterminated", "mi_stats_get_json(%zu, buf): no terminator inside the buffer", n); return; }
    size_t cmp = len < stable ? len : stable;
    if (memcmp(buf, full, cmp) != 0) { VIOL("json-differs", "mi_stats_get_json(%zu, buf): output is not a prefix of the full output", n); return; }
    if (n > flen + 16) { const char* e = js_value(buf, 0); if (e == NULL || *js_ws(e) != 0) { VIOL("json-invalid", "mi_stats_get_json(%zu, buf) with a large enough buffer is not valid JSON", n); return; } }
    if (n > 64) VF_INC(nontrivial);
  }
  mi_free(full);
  /* mi_stats_print_out / mi_options_print through a callback: every chunk is a terminated string */
  g_cb_bytes = 0; g_cb_calls = 0; g_cb_bad = 0;
  mi_stats_print_out(&out_cb, NULL);
  VF_INC(nodes); VF_INC(checks);
  if (g_cb_bad || g_cb_calls == 0 || g_cb_bytes < 200) { VIOL("stats-print", "mi_stats_print_out produced %d chunks / %zu bytes (bad=%d)", g_cb_calls, g_cb_bytes, g_cb_bad); return; }
  mi_register_output(&out_cb, NULL);
  g_cb_bytes = 0; g_cb_calls = 0;
  mi_options_print();
  if (g_cb_bad || g_cb_calls < _mi_option_last) { VIOL("options-print", "mi_options_print produced %d chunks for %d options", g_cb_calls, (int)_mi_option_last); return; }
  /* delayed output buffer: more than 16 KiB of messages of every length before an output function is registered */
  out_len = 0; memset(out_buf, 0, sizeof(out_buf));
  char msg[700];
  size_t total = 0;
  for (int round = 0; round < 3; round++) for (int L = 0; L < 600; L += (round == 0 ? 1 : 7)) {
    memset(msg, 'm', (size_t)L); msg[L] = 0;
    mi_out_buf(msg, NULL); total += (size_t)L;
    VF_INC(transitions);
    if (mi_atomic_load_relaxed(&out_len) > MI_MAX_DELAY_OUTPUT + 700 * 1000) { VIOL("delayed-output", "length counter runs away"); return; }
  }
  g_cb_bytes = 0; g_cb_calls = 0;
  mi_out_buf_flush(&out_cb, true, NULL);
  VF_INC(nodes); VF_INC(checks);
  if (g_cb_bad || g_cb_bytes > MI_MAX_DELAY_OUTPUT) { VIOL("delayed-output", "flush delivered %zu bytes from a %zu byte buffer", g_cb_bytes, (size_t)MI_MAX_DELAY_OUTPUT); return; }
  if (total > MI_MAX_DELAY_OUTPUT && g_cb_bytes < MI_MAX_DELAY_OUTPUT - 700) { VIOL("delayed-output", "only %zu bytes were kept of %zu written", g_cb_bytes, total); return; }
  VF_INC(nontrivial);
  /* the heap-allocated form when its buffer cannot grow any more: the OS refuses new mappings, every span of every segment is in
     use, and only the 2 KiB and 4 KiB classes have a free block left (next to live neighbours). The text is then cut inside the
     4 KiB block: terminated within the block's usable size, neighbours untouched. (last: this leaves the heap exhausted) */
  {
    mi_register_output(NULL, NULL);
    uint8_t* k2[8]; uint8_t* k4[8];
    for (int i = 0; i < 8; i++) { k2[i] = (uint8_t*)mi_malloc(2048); k4[i] = (uint8_t*)mi_malloc(4096); if (!k2[i] || !k4[i]) { VIOL("null-result", "set-up"); return; } memset(k2[i], 0x21 + i, 2048); memset(k4[i], 0x41 + i, 4096); }
    vf_os.fail_from = vf_os.ncalls; vf_os.fail_kinds = (1u << VF_C_MMAP);
    static const size_t fill[] = { 1 * MI_MiB, 32 * 1024, 8 * 1024, 1024, 3000, 6000, 12000, 16 * 1024, 24 * 1024, 48 * 1024 };   /* large pages, medium pages, small pages, then the blocks left in existing pages */
    long nfill = 0;
    for (size_t f = 0; f < sizeof(fill) / sizeof(fill[0]); f++) for (long i = 0; i < 200000; i++) { if (mi_malloc(fill[f]) == NULL) break; nfill++; }
    vf_err_count = 0;
    mi_free(k2[3]); mi_free(k4[3]);                      /* one free block in each of the two classes */
    char* js = mi_stats_get_json(0, NULL);
    VF_INC(nodes); VF_INC(checks);
    if (js != NULL) {
      size_t us = mi_usable_size(js), L = strnlen(js, us + 65536);
      vf_sample("mi_stats_get_json(0,NULL) with an exhausted heap (%ld filler blocks): %zu bytes of text in a block of %zu usable bytes", nfill, L, us);
      if (L >= us) { VIOL("json-heap-overflow", "mi_stats_get_json(0,NULL) whose buffer could not grow (heap exhausted, OS refusing) returned a block of %zu usable bytes holding %zu characters without a terminator inside it", us, L); return; }
      if (us > 6000) { vf_sample("(the buffer could still grow to %zu bytes: exhaustion incomplete)", us); }
      else VF_INC(nontrivial);
    }
    for (int i = 0; i < 8; i++) {
      if (i == 3) continue;
      for (size_t j = 0; j < 2048; j++) if (k2[i][j] != 0x21 + i) { VIOL("json-heap-overflow", "mi_stats_get_json(0,NULL) with an exhausted heap changed byte %zu of a live 2 KiB block", j); return; }
      for (size_t j = 0; j < 4096; j++) if (k4[i][j] != 0x41 + i) { VIOL("json-heap-overflow", "mi_stats_get_json(0,NULL) with an exhausted heap changed byte %zu of a live 4 KiB block", j); return; }
    }
    vf_os_plan_clear();
  }
}

/* ---------------- sec e: exec mode ------------------------------------------------------------------------------ */
static int exec_readback(const char* optname) {
  /* child side: print the value of every option */
  (void)optname;
  for (int k = 0; k < _mi_option_last; k++) printf("%s=%ld\n", options[k].name, mi_option_get((mi_option_t)k));
  return 0;
}

int main(int argc, char** argv) {
  vf_prop = vf_arg(argc, argv, "--prop", "C20");
  vf_outdir = vf_arg(argc, argv, "--outdir", "/verif");
  const char* out = vf_arg(argc, argv, "--out", NULL);
  const char* replay = vf_arg(argc, argv, "--replay", NULL);
  const char* mode = vf_arg(argc, argv, "--mode", "all");
  if (strcmp(mode, "readback") == 0) return exec_readback(NULL);
  vf_verbose = vf_flag(argc, argv, "-v");
  if (vf_verbose) vf_install_crash_handler();
  vf_shared_init(atof(vf_arg(argc, argv, "--deadline", "900")));
  for (int k = 0; k < _mi_option_last; k++) { (void)mi_option_get((mi_option_t)k); g_defaults[k] = options[k]; }
  if (!vf_verbose) mi_register_output(&vf_out_null, NULL);
  snprintf(vf_cfg, sizeof(vf_cfg), "opt");
  guard_init();
  int secs[5] = { 1, 3, 4, 5, 0 };
  if (replay) {
    if (vf_load_replay(replay) < 0) return 2;
    long sec = vf_path[0].a; g_only = vf_path[0].b;
    if (sec == 1 || sec == 2) { if (sec == 2) g_only = 1L << 60; sec_a(); } else if (sec == 3) sec_b(); else if (sec == 4) sec_c(); else if (sec == 5) sec_d();
    if (vf_sh->nviol > 0) printf("REPLAY violation key=%s msg=%s\n", vf_sh->viol[0].key, vf_sh->viol[0].msg); else printf("REPLAY no violation\n");
    return vf_sh->nviol > 0 ? 1 : 0;
  }
  /* each section in its own forked child (a crash -- SIGSEGV on the guard page, ASan report -- is attributed to it) */
  for (int i = 0; secs[i]; i++) {
    pid_t pid = fork();
    if (pid == 0) { if (secs[i] == 1) sec_a(); else if (secs[i] == 3) sec_b(); else if (secs[i] == 4) sec_c(); else sec_d(); _exit(0); }
    int st = 0; waitpid(pid, &st, 0);
    if (!(WIFEXITED(st) && WEXITSTATUS(st) == 0)) { CASE(secs[i], -1); if (vf_sh->nviol == 0) VIOL("crash", "section %d died (status 0x%x): memory-safety error or crash inside option parsing / formatted output", secs[i], st); }
  }
  vf_sample("MIMALLOC_ARENA_RESERVE=17179869184TiB -> saturates to %ld KiB; MIMALLOC_PURGE_DELAY=12Q -> default %ld", SAT_KIB, g_defaults[mi_option_purge_delay].value);
  vf_sample("_mi_snprintf(buf, n, \"<%%-012lld>|\", LLONG_MIN) for n = 0..80 with buf ending at a PROT_NONE page");
  char extra[64]; snprintf(extra, sizeof(extra), "\"options\":%d", (int)_mi_option_last);
  if (out) vf_write_result(out, extra);
  if (vf_sh->infra_error) return 2;
  return vf_sh->nviol > 0 ? 1 : 0;
}
