/* h_conc.c -- schedule exploration harness (build with -DVF_SCHED): small multi-threaded programs over the real
 * allocator, every interleaving at the granularity of the allocator's atomic operations up to a preemption bound
 * (plus bounded spurious weak-CAS failures).  Serves C02, C08, C09, C10 (concurrent part), C13/C14 (arena seam).
 *
 * usage: h_conc --prop C02 --prog H1 [--bound 2] [--sbound 1] --out res.json [--replay file] [--family k]
 */
#include "src/static.c"
#include "verif_post.h"
#include "vf_harness.h"
#include "vf_explore.h"

void vf_yield(void);   /* scheduler: the calling thread waits for somebody else (used in harness wait loops) */

#define KiB 1024L
#define MiB (1024L * 1024L)

/* ---------------- program representation ---------------------------------------------------------- */
enum {
  C_END = 0,
  C_MALLOC,        /* a = size, b = slot */
  C_FREE,          /* a = slot (skipped if the slot is empty) */
  C_FREE_WAIT,     /* a = slot: wait (yielding) until the slot is filled, then free it */
  C_COLLECT,       /* a = force */
  C_FILL,          /* a = size, b = first slot, c = count */
  C_THREAD_DONE,   /* mi_thread_done() */
  C_HEAP_NEW,      /* a = heap slot */
  C_HMALLOC,       /* a = heap slot, b = size, c = slot */
  C_HFILL,         /* a = heap slot, b = size, c = first slot, d = count */
  C_HEAP_DELETE,   /* a = heap slot */
  C_HEAP_COLLECT,  /* a = heap slot, b = force */
  C_HEAP_DESTROY,  /* a = heap slot (its blocks leave the model first) */
  C_INIT,          /* make sure this thread has a heap (malloc+free of 64 bytes) */
  C_GENERIC99,     /* poke: the next generic malloc of this thread runs the delayed-free / administrative path */
  C_COLLECT_REDUCE,/* a = target bytes: mi_collect_reduce */
  C_PAGES_MARK,    /* remember the number of pages of this thread's backing heap in round-slot a */
  C_ARENA_ALLOC,   /* a = blocks, b = slot: _mi_arena_alloc_aligned + write pattern */
  C_ARENA_FREE,    /* a = slot */
  C_ARENAS_COLLECT,/* a = force */
  C_TICK,          /* a = ms */
  C_SUBPROC,       /* put this thread into a fresh sub-process */
  C_REALLOC,       /* a = slot, b = new size */
  C_FREE_RANGE_WAIT, /* a = first slot, b = count: C_FREE_WAIT for each slot in order */
  C_DUMP,
  C_SUBPROC_JOIN,  /* a = index: the thread joins harness sub-process a (created on first use) */
  C_MALLOC_AL_AT,  /* a = size, b = slot, c = alignment: mi_malloc_aligned_at(size, alignment, 8): an over-allocated block returned as interior pointer */
  C_SIGNAL,        /* a = flag index: raise a harness flag */
  C_WAIT_FLAG,     /* a = flag index: wait (yielding) until it is raised */
  C_WAIT_LIVE,     /* a = slot: wait until some thread has allocated into it */
  C_PAGES_LE,      /* a = mark index: the owner's heap must not hold more pages now than at that mark */
  C_WAIT_FREE_DONE,/* like C_WAIT_FREED, but waits until the consumer's mi_free calls have returned */
  C_WAIT_FREED,    /* a = first slot, b = count: wait (yielding) until these slots have been released by their consumer */
  C_EXPECT_UNMAPPED, /* a = slot (released): the memory that held it must have been returned to the OS by now (a block with a mapping of its own) */
  C_FILL_PAGE,     /* a = size (small class), b = first slot, c = slots to register, d = bulk index: allocate until the page of the first block has
                      handed out its last block; the first c blocks go into slots, the rest are only kept (released at tear-down) */
};
typedef struct cop_s { int code; long a, b, c, d; } cop_t;
#define MAXOPS 24
typedef struct cprog_s {
  const char* name; int nthreads;
  cop_t setup[VF_MAX_THREADS][MAXOPS];
  cop_t run[VF_MAX_THREADS][MAXOPS];
  int owner_never_collects;   /* C08-B: teardown of thread 0 must not collect before the page-count oracle */
  int quiescence;             /* 1: check "heap of thread 0 holds no live pages" after everything is freed */
  int arena_blocks;           /* >0: create a private arena with that many blocks (seam B) */
  int arena_heap;             /* C_HEAP_NEW creates heaps bound to that (exclusive) arena */
  int sparse;                 /* 1: blocks above 128 KiB carry the pattern only in their first 64 KiB */
  int leakcheck;              /* 1: after all threads are gone and the main thread force-collected, nothing may stay claimed/mapped (C09) */
} cprog_t;

#define NSLOTS 96
typedef struct slot_s { uint8_t* p; size_t req, usable; uint64_t seed; int live; int owner; int arena; mi_memid_t memid; int in_transit; int free_returned; size_t plen; } slot_t;
static slot_t  g_slots[NSLOTS];
static void*   g_bulk[4][4200]; static int g_nbulk[4];   /* blocks of C_FILL_PAGE that are not in the model */
/* the hand-over flags are accessed with (uninstrumented) atomic builtins: no effect under the token scheduler, and properly
   synchronised hand-overs in the free-running race pass */
#define LIVE(i)            __atomic_load_n(&g_slots[i].live, __ATOMIC_ACQUIRE)
#define FREE_RET(i)        __atomic_load_n(&g_slots[i].free_returned, __ATOMIC_ACQUIRE)
#define SET_FREE_RET(i, v) __atomic_store_n(&g_slots[i].free_returned, (v), __ATOMIC_RELEASE)
/* free-running threads must claim a slot atomically before they release it (under the token the test and the release are one step) */
#define CLAIM(i)           (g_race ? __atomic_exchange_n(&g_slots[i].live, 0, __ATOMIC_ACQ_REL) : LIVE(i))
#define SPIN_MAX (g_race ? 2000000000L : 100000L)
static int     g_race = 0;                  /* race pass: threads run freely under ThreadSanitizer; the cross-thread oracles are off */
static mi_heap_t* g_hs[4];
static int g_hs_owner[4];          /* the thread that created the heap in that slot */
static long    g_pages_mark[8];
static int     g_flags[8];
static mi_subproc_id_t g_sp[4];
static uint64_t g_out[VF_MAX_THREADS];      /* per-thread observation hash */
static const cprog_t* g_prog;
static mi_arena_id_t g_arena_id;
static int     g_err_expected = 0;

static void vf_op_str(vf_op_t op, char* buf, size_t n) { snprintf(buf, n, "%ld", op.a); }
static int  vf_list_ops(vf_op_t* out, int max) { (void)out; (void)max; return 0; }
static int  vf_apply(vf_op_t op) { (void)op; return 0; }
static int  vf_check_node(void) { return 0; }

static void obs(int tid, uint64_t v) { g_out[tid] = vf_mix(g_out[tid] ^ v); }

/* ---------------- shared model (only the token holder runs, so no locking) ------------------------- */
static int check_live_patterns(const char* when, int tid) {
  if (g_race) return 0;      /* reading other threads' blocks while they free them would be a race of the harness itself */
  for (int i = 0; i < NSLOTS; i++) if (LIVE(i) && !g_slots[i].in_transit) {
    long bad = vf_pat_check(g_slots[i].p, g_slots[i].plen, g_slots[i].seed);
    VF_INC(checks);
    if (bad >= 0) { SVIOL("contents-changed", "%s (thread %d): live block in slot %d %p (req %zu, allocated by thread %d) changed at offset %ld", when, tid, i, g_slots[i].p, g_slots[i].req, g_slots[i].owner, bad); return -1; }
  }
  return 0;
}
static int model_add(int slot, void* ptr, size_t req, int tid, const char* what) {
  uint8_t* p = (uint8_t*)ptr;
  VF_INC(checks);
  if (p == NULL) { SVIOL("null-result", "thread %d: %s(%zu) returned NULL", tid, what, req); return -1; }
  size_t usable = (g_slots[slot].arena ? req : mi_usable_size(p));
  if (usable < req) { SVIOL("usable-too-small", "thread %d: %s(%zu): usable %zu", tid, what, req, usable); return -1; }
  for (int i = 0; i < NSLOTS && !g_race; i++) if (LIVE(i) && i != slot) {
    if (p < g_slots[i].p + g_slots[i].usable && g_slots[i].p < p + usable) {
      SVIOL("overlap", "thread %d: %s(%zu) = [%p,+%zu) overlaps the live block in slot %d [%p,+%zu) allocated by thread %d: the same memory has two owners", tid, what, req, p, usable, i, g_slots[i].p, g_slots[i].usable, g_slots[i].owner);
      return -1;
    }
  }
  if (!vf_os_accessible(p, usable ? usable : 1)) { SVIOL("inaccessible", "thread %d: %s(%zu) = %p is not in accessible memory", tid, what, req, p); return -1; }
  slot_t* s = &g_slots[slot];
  s->p = p; s->req = req; s->usable = usable; s->owner = tid; s->seed = vf_mix((uintptr_t)p ^ (req * 31) ^ ((uint64_t)slot << 40));
  s->plen = (g_prog->sparse && usable > 128 * KiB ? 64 * KiB : usable);     /* sparse: only the first 64 KiB of a large block carry the pattern (keeps executions cheap) */
  vf_pat_write(p, s->plen, s->seed);
  s->in_transit = 0; s->free_returned = 0; __atomic_store_n(&s->live, 1, __ATOMIC_RELEASE);
  obs(tid, (uintptr_t)p);
  return 0;
}
/* a block leaves the live set immediately BEFORE the call that releases it */
static int model_remove(int slot, int tid) {
  slot_t* s = &g_slots[slot];
  long bad = vf_pat_check(s->p, s->plen, s->seed);
  VF_INC(checks);
  if (bad >= 0) { SVIOL("contents-changed", "thread %d: block in slot %d %p changed at offset %ld before it was freed", tid, slot, s->p, bad); return -1; }
  __atomic_store_n(&s->live, 0, __ATOMIC_RELEASE);
  return 0;
}

static mi_heap_t* backing_of_thread0;

/* ---------------- interpreter ------------------------------------------------------------------------ */
static int g_selftest; static volatile long g_selftest_ctr;   /* race-pass self-test: an unsynchronised counter that every thread bumps */
static int exec_ops(const cop_t* ops, int tid, int explored) {
  for (int k = 0; k < MAXOPS && ops[k].code != C_END; k++) {
    const cop_t* o = &ops[k];
    if (g_selftest && explored) g_selftest_ctr = g_selftest_ctr + 1;
    if (vf_sh->stop && explored) { /* keep going: the execution must still terminate cleanly */ }
    switch (o->code) {
      case C_INIT: { void* t = mi_malloc(64); mi_free(t); break; }
      case C_MALLOC: { void* p = mi_malloc((size_t)o->a); if (getenv("VF_DBG_SEG")) fprintf(stderr, "[t%d] malloc(%ld) slot %ld = %p segment %p (slot1 segment %p)\n", tid, o->a, o->b, p, (void*)_mi_ptr_segment(p), (void*)_mi_ptr_segment(g_slots[1].p)); if (model_add((int)o->b, p, (size_t)o->a, tid, "mi_malloc")) return -1; break; }
      case C_FILL: for (long i = 0; i < o->c; i++) { void* p = mi_malloc((size_t)o->a); if (model_add((int)(o->b + i), p, (size_t)o->a, tid, "mi_malloc")) return -1; } break;
      case C_FREE: if (CLAIM(o->a)) { void* p = g_slots[o->a].p; if (model_remove((int)o->a, tid)) return -1; mi_free(p); if (getenv("VF_DBG_SEG")) fprintf(stderr, "[t%d] free slot %ld: segment %p now owned by thread id %zx (me %zx)\n", tid, o->a, (void*)_mi_ptr_segment(p), (size_t)mi_atomic_load_relaxed(&_mi_ptr_segment(p)->thread_id), (size_t)_mi_thread_id()); obs(tid, 0xF0 + (uint64_t)o->a); } else obs(tid, 0xE0); break;
      case C_FREE_WAIT: { long spins = 0; while (!LIVE(o->a)) { vf_yield(); if (++spins > SPIN_MAX) { SVIOL("livelock", "thread %d waits forever for slot %ld", tid, o->a); return -1; } }
                          void* p = g_slots[o->a].p; if (model_remove((int)o->a, tid)) return -1; mi_free(p); SET_FREE_RET(o->a, 1); break; }
      case C_FREE_RANGE_WAIT: for (long i = 0; i < o->b; i++) { long spins = 0; while (!LIVE(o->a + i)) { vf_yield(); if (++spins > SPIN_MAX) { SVIOL("livelock", "thread %d waits forever for slot %ld", tid, o->a + i); return -1; } }
                              void* p = g_slots[o->a + i].p; if (model_remove((int)(o->a + i), tid)) return -1; mi_free(p); SET_FREE_RET(o->a + i, 1); if (check_live_patterns("after free", tid)) return -1; } break;
      case C_REALLOC: if (CLAIM(o->a)) {
          slot_t old = g_slots[o->a]; g_slots[o->a].in_transit = 1;
          void* q = mi_realloc(old.p, (size_t)o->b);
          if (q == NULL) { SVIOL("null-result", "thread %d: mi_realloc returned NULL", tid); return -1; }
          long bad = vf_pat_check_lim((uint8_t*)q, old.usable, old.seed, old.req < (size_t)o->b ? old.req : (size_t)o->b);
          if (bad >= 0) { SVIOL("realloc-contents", "thread %d: realloc of slot %ld lost byte %ld", tid, o->a, bad); return -1; }
          g_slots[o->a].live = 0;
          if (model_add((int)o->a, q, (size_t)o->b, tid, "mi_realloc")) return -1;
        } break;
      case C_COLLECT: mi_collect(o->a != 0); break;
      case C_THREAD_DONE: mi_thread_done(); for (int h = 0; h < 4; h++) if (g_hs[h] && g_hs_owner[h] == tid) g_hs[h] = NULL;   /* (its heaps are deleted by the exit) */
                          break;
      case C_HEAP_NEW: g_hs_owner[o->a] = tid; g_hs[o->a] = (g_prog->arena_heap ? mi_heap_new_in_arena(g_arena_id) : mi_heap_new()); if (!g_hs[o->a]) { SVIOL("null-result", "mi_heap_new"); return -1; } break;
      case C_HMALLOC: { void* p = mi_heap_malloc(g_hs[o->a], (size_t)o->b); if (model_add((int)o->c, p, (size_t)o->b, tid, "mi_heap_malloc")) return -1; break; }
      case C_HFILL: for (long i = 0; i < o->d; i++) { void* p = mi_heap_malloc(g_hs[o->a], (size_t)o->b); if (model_add((int)(o->c + i), p, (size_t)o->b, tid, "mi_heap_malloc")) return -1; } break;
      case C_HEAP_DELETE: { mi_heap_t* h = g_hs[o->a]; g_hs[o->a] = NULL; mi_heap_delete(h);
                            /* the descriptor is released: if somebody still pushes onto its delayed list that write lands in freed memory; poison it */
                            break; }
      case C_HEAP_COLLECT: mi_heap_collect(g_hs[o->a], o->b != 0); break;
      case C_HEAP_DESTROY: { mi_heap_t* h = g_hs[o->a]; g_hs[o->a] = NULL; mi_heap_destroy(h); break; }
      case C_GENERIC99: { mi_heap_t* h = mi_heap_get_default(); h->generic_count = 99; break; }
      case C_COLLECT_REDUCE: mi_collect_reduce((size_t)o->a); break;
      case C_PAGES_MARK: g_pages_mark[o->a] = (long)mi_heap_get_backing()->page_count; if (g_pages_mark[o->a] > vf_sh->counters[6]) vf_sh->counters[6] = g_pages_mark[o->a]; break;
      case C_WAIT_LIVE: { long spins = 0; while (!LIVE(o->a)) { vf_yield(); if (++spins > SPIN_MAX) { SVIOL("livelock", "thread %d waits forever for slot %ld", tid, o->a); return -1; } } break; }
      case C_SIGNAL: __atomic_store_n(&g_flags[o->a], 1, __ATOMIC_RELEASE); break;
      case C_WAIT_FLAG: { long spins = 0; while (!__atomic_load_n(&g_flags[o->a], __ATOMIC_ACQUIRE)) { vf_yield(); if (++spins > SPIN_MAX) { SVIOL("livelock", "thread %d waits forever for flag %ld", tid, o->a); return -1; } } break; }
      case C_MALLOC_AL_AT: { void* p = mi_malloc_aligned_at((size_t)o->a, (size_t)o->c, 8); if (p != NULL && (((uintptr_t)p + 8) % (size_t)o->c) != 0) { SVIOL("misaligned", "thread %d: mi_malloc_aligned_at(%ld,%ld,8) = %p", tid, o->a, o->c, p); return -1; } if (model_add((int)o->b, p, (size_t)o->a, tid, "mi_malloc_aligned_at")) return -1; break; }
      case C_DUMP: { mi_heap_t* h = mi_heap_get_default(); fprintf(stderr, "[t%d] pages=%zu", tid, h->page_count); for (int b = 0; b <= MI_BIN_FULL; b++) for (mi_page_t* pg = h->pages[b].first; pg; pg = pg->next) fprintf(stderr, " [bin%d bs=%zu used=%d fl=%d]", b, mi_page_block_size(pg), pg->used, (int)mi_page_thread_free_flag(pg)); fprintf(stderr, "\n"); break; }
      case C_PAGES_LE: { long now = (long)mi_heap_get_backing()->page_count; VF_INC(checks); if (now > g_pages_mark[o->a]) { SVIOL("freed-blocks-not-reused", "thread %d: %ld blocks were freed by another thread and the same number allocated again, but the heap grew from %ld to %ld pages: the remotely freed blocks were not reusable by the owner", tid, o->b, g_pages_mark[o->a], now); return -1; } break; }
      case C_WAIT_FREED: case C_WAIT_FREE_DONE: { long spins = 0; for (;;) { int pending = 0; for (long i = 0; i < o->b; i++) if (LIVE(o->a + i) || g_slots[o->a + i].p == NULL || (o->code == C_WAIT_FREE_DONE && !FREE_RET(o->a + i))) pending = 1; if (!pending) break; vf_yield(); if (++spins > SPIN_MAX) { SVIOL("livelock", "thread %d waits forever for slots %ld..", tid, o->a); return -1; } } break; }
      case C_FILL_PAGE: {
        const mi_page_t* pg = NULL; int k = (int)o->d;
        for (int i = 0; i < 4200; i++) {
          void* p = mi_malloc((size_t)o->a);
          if (p == NULL) { SVIOL("null-result", "thread %d: mi_malloc(%ld) returned NULL", tid, o->a); return -1; }
          if (pg == NULL) pg = _mi_ptr_page(p);
          else if (_mi_ptr_page(p) != pg) { SVIOL("harness-geometry", "thread %d: fill_page left its page before the page was exhausted", tid); return -1; }
          if (i < o->c) { if (model_add((int)(o->b + i), p, (size_t)o->a, tid, "mi_malloc")) return -1; }
          else { memset(p, 0x5A, (size_t)o->a); g_bulk[k][g_nbulk[k]++] = p; }
          if (pg->free == NULL && pg->local_free == NULL && pg->used == pg->reserved) break;   /* its last block went out */
        }
        break;
      }
      case C_EXPECT_UNMAPPED: { VF_INC(checks); if (!g_race && g_slots[o->a].p != NULL && !LIVE(o->a) && vf_os_accessible(g_slots[o->a].p, 1)) { SVIOL("abandoned-segment-not-released", "thread %d: the block in slot %ld (own OS mapping, owner terminated) was freed and a forced collect ran, but its memory is still mapped", tid, o->a); return -1; } break; }
      case C_TICK: vf_os.clock_ms += o->a; break;
      case C_SUBPROC: { mi_subproc_id_t sp = mi_subproc_new(); mi_subproc_add_current_thread(sp); break; }
      case C_SUBPROC_JOIN: { if (g_sp[o->a] == NULL) g_sp[o->a] = mi_subproc_new(); mi_subproc_add_current_thread(g_sp[o->a]); break; }   /* several threads share sub-process number a */
      case C_ARENA_ALLOC: {
        mi_memid_t memid; size_t size = (size_t)o->a * MI_ARENA_BLOCK_SIZE;
        void* p = _mi_arena_alloc_aligned(size, MI_ARENA_BLOCK_SIZE, 0, true, false, g_arena_id, &memid);
        obs(tid, (uintptr_t)p);
        if (p != NULL) {
          g_slots[o->b].arena = 1; g_slots[o->b].memid = memid;
          /* only the first and last 64 KiB of each claimed block are used (keeps executions cheap) */
          if (model_add((int)o->b, p, 64 * KiB, tid, "_mi_arena_alloc_aligned")) return -1;
          g_slots[o->b].req = size;
          size_t ai; size_t bi; mi_arena_memid_indices(memid, &ai, &bi);
          uintptr_t s = (uintptr_t)mi_arena_from_index(ai)->start, e = s + mi_arena_block_size(mi_arena_from_index(ai)->block_count);
          if ((uintptr_t)p < s || (uintptr_t)p + size > e) { SVIOL("outside-arena", "thread %d: arena allocation [%p,+%zu) lies outside the arena [%p,%p)", tid, p, size, (void*)s, (void*)e); return -1; }
          for (int i = 0; i < NSLOTS && !g_race; i++) if (i != o->b && LIVE(i) && g_slots[i].arena) {
            uintptr_t a0 = (uintptr_t)g_slots[i].p, a1 = a0 + g_slots[i].req;
            if ((uintptr_t)p < a1 && a0 < (uintptr_t)p + size) { SVIOL("arena-overlap", "thread %d: arena claim [%p,+%zu) overlaps the live claim of slot %d [%p,+%zu)", tid, p, size, i, (void*)a0, g_slots[i].req); return -1; }
          }
        }
        break;
      }
      case C_ARENA_FREE: if (CLAIM(o->a)) { slot_t s = g_slots[o->a]; if (model_remove((int)o->a, tid)) return -1; _mi_arena_free(s.p, s.req, s.req, s.memid); } break;
      case C_ARENAS_COLLECT: _mi_arenas_collect(o->a != 0); break;
    }
    if (check_live_patterns("after operation", tid)) return -1;
    if (vf_err_count > 0 && !g_err_expected) { SVIOL("error-callback", "thread %d: mimalloc reported error %d", tid, vf_err_last); return -1; }
  }
  return 0;
}

static volatile int g_failed;
static void t_setup(int tid) { if (exec_ops(g_prog->setup[tid], tid, 0)) g_failed = 1; }
/* what a thread can observe of the allocator when it is done: part of the execution's outcome (vacuity guard: many
   executions with a single outcome mean that nothing collided) */
static void observe_state(int tid) {
  if (g_race) return;        /* walks lists that other threads push to: meaningful only under the token scheduler */
  mi_heap_t* h = mi_prim_get_default_heap();
  if (h == NULL || !mi_heap_is_initialized(h)) { obs(tid, 0xDEAD); return; }
  size_t dl = 0; for (mi_block_t* b = mi_atomic_load_ptr_relaxed(mi_block_t, &h->thread_delayed_free); b != NULL && dl < 1000; b = mi_block_nextx(h, b, h->keys)) dl++;
  size_t full = 0; for (mi_page_t* pg = h->pages[MI_BIN_FULL].first; pg != NULL; pg = pg->next) full++;
  size_t tf = 0, used = 0;
  for (size_t bin = 0; bin <= MI_BIN_FULL; bin++) for (mi_page_t* pg = h->pages[bin].first; pg != NULL; pg = pg->next) { used += pg->used; tf = tf * 5 + (size_t)mi_page_thread_free_flag(pg) + (mi_page_thread_free(pg) != NULL ? 3 : 0); }
  obs(tid, h->page_count * 1315423911u + dl * 2654435761u + full * 97 + used * 31 + tf + h->tld->segments.count * 7919);
}
static void t_run(int tid)   { if (!g_failed) { if (exec_ops(g_prog->run[tid], tid, 1)) g_failed = 1; else observe_state(tid); } }
/* teardown (serial, thread n-1 first, thread 0 last): every thread frees what is still live and that it allocated;
   thread 0 additionally frees blocks of threads that are gone, collects, and runs the quiescence oracle */
static int heap_pages_visit_used;
static bool used_cb(const mi_heap_t* h, const mi_heap_area_t* area, void* block, size_t bs, void* arg) { (void)h; (void)block; (void)bs; (void)arg; if (area->used > 0) heap_pages_visit_used++; return true; }
static void t_teardown(int tid) {
  if (g_failed) return;
  if (tid == 0 && g_prog->owner_never_collects) {
    /* C08-B: at most 24 blocks (3 pages of 8) are ever live or in flight, plus the page of the 64-byte warm-up block and one
       page of slack for a retired page: a heap that holds more than 5 pages has pages stuck that were freed remotely. A
       stuck page per round would give 7 or more after six rounds. */
    for (int r = 0; r < 8; r++) if (g_pages_mark[r] > 5) {
      SVIOL("page-blowup", "producer/consumer with at most 24 live blocks (8 per page): the owner's heap holds %ld pages after round %d (rounds: %ld %ld %ld %ld %ld %ld)", g_pages_mark[r], r, g_pages_mark[0], g_pages_mark[1], g_pages_mark[2], g_pages_mark[3], g_pages_mark[4], g_pages_mark[5]);
      g_failed = 1; return;
    }
  }
  if (tid == 0) for (int k = 0; k < 4; k++) { for (int i = 0; i < g_nbulk[k]; i++) mi_free(g_bulk[k][i]); g_nbulk[k] = 0; }
  for (int i = 0; i < NSLOTS; i++) if (LIVE(i) && (g_slots[i].owner == tid || tid == 0)) {
    slot_t s = g_slots[i];
    if (model_remove(i, tid)) { g_failed = 1; return; }
    if (s.arena) _mi_arena_free(s.p, s.req, s.req, s.memid); else mi_free(s.p);
  }
  if (tid == 0) {
    for (int h = 0; h < 4; h++) if (g_hs[h]) { mi_heap_delete(g_hs[h]); g_hs[h] = NULL; }
    if (g_prog->quiescence) {
      mi_heap_t* heap = mi_heap_get_backing();
      mi_heap_collect(heap, true);
      VF_INC(checks);
      heap_pages_visit_used = 0;
      mi_heap_visit_blocks(heap, false, &used_cb, NULL);
      if (heap_pages_visit_used > 0 || heap->page_count != 0) {
        SVIOL("blocks-lost", "all blocks were freed and the owner force-collected, but its heap still holds %zu pages (%d areas report used blocks): a freed block was lost", heap->page_count, heap_pages_visit_used);
        g_failed = 1; return;
      }
    }
  } else {
    mi_collect(true);
  }
}

static size_t g_arena_inuse0;
static size_t arena_popcount(mi_arena_id_t id) {
  mi_arena_t* a = mi_arena_from_index(mi_arena_id_index(id)); size_t n = 0;
  for (size_t f = 0; f < a->field_count; f++) n += (size_t)__builtin_popcountl(mi_atomic_load_relaxed(&a->blocks_inuse[f]));
  return n;
}
int vf_sched_tid(void);
static void dbg_monitor(int kind, int arg, uintptr_t addr, size_t len) { fprintf(stderr, "[os] thread %d kind=%d arg=%d addr=%p len=%zu\n", vf_sched_tid(), kind, arg, (void*)addr, len); }
static void c_before(void) {
  if (getenv("VF_DBG_SEG")) vf_os.monitor = &dbg_monitor;
  vf_sched_silent(&_mi_stats_main, sizeof(_mi_stats_main));
  if (g_prog->arena_blocks > 0) {
    if (mi_reserve_os_memory_ex((size_t)g_prog->arena_blocks * MI_ARENA_BLOCK_SIZE, false, false, true, &g_arena_id) != 0) { fprintf(stderr, "cannot reserve arena\n"); _exit(97); }
    g_arena_inuse0 = arena_popcount(g_arena_id);
  }
}
static void c_after(vf_trace_t* tr) {
  uint64_t h = 0; for (int i = 0; i < VF_MAX_THREADS; i++) h = vf_mix(h ^ g_out[i]);
  tr->outcome = h;
  if (getenv("VF_DBG_SEG")) vf_os_dump(2);
  if (g_failed) return;
  if (g_prog->leakcheck) {
    /* every thread is gone, every block was freed; the main thread force-collects (which also adopts and frees what is
       still abandoned): memory left behind by terminated threads must have been released, not leaked */
    mi_collect(true);
    VF_INC(checks);
    size_t na = mi_atomic_load_relaxed(&mi_arena_count);
    for (size_t i = 0; i < na; i++) {
      mi_arena_t* a = mi_atomic_load_ptr_relaxed(mi_arena_t, &mi_arenas[i]); if (!a) continue;
      size_t inuse = 0, ab = 0; for (size_t f = 0; f < a->field_count; f++) { inuse += (size_t)__builtin_popcountl(mi_atomic_load_relaxed(&a->blocks_inuse[f])); ab += (size_t)__builtin_popcountl(mi_atomic_load_relaxed(&a->blocks_abandoned[f])); }
      size_t leftover = a->field_count * MI_BITMAP_FIELD_BITS - a->block_count;
      if (inuse != leftover || ab != 0) { SVIOL("segment-leaked", "after all blocks were freed, all threads ended and the main thread force-collected, arena %zu still has %zu blocks in use (%zu marked abandoned): memory left behind by a terminated thread was not released", i, inuse - leftover, ab); return; }
    }
    size_t abc = mi_atomic_load_relaxed(&_mi_subproc_from_id(mi_subproc_main())->abandoned_count);
    if (abc != 0) { SVIOL("segment-leaked", "abandoned segment count is %zu after everything was freed and collected", abc); return; }
    size_t os_bytes = 0;
    for (int i = 0; i < vf_os.nregions; i++) { const vf_region_t* r = &vf_os.regions[i]; if ((r->end - r->start) >= MI_SEGMENT_SIZE / 2 && !_mi_arena_contains((void*)r->start)) os_bytes += r->end - r->start; }
    if (os_bytes > 0) { SVIOL("segment-leaked", "%zu bytes of segment-sized memory obtained directly from the OS are still mapped after everything was freed and collected", os_bytes); return; }
  }
  if (g_prog->arena_blocks > 0) {
    /* nothing stays reserved: every claim (successful, failed or rolled back) is gone, and the arena can be taken completely */
    VF_INC(checks);
    size_t pc = arena_popcount(g_arena_id);
    if (pc != g_arena_inuse0) { SVIOL("arena-bits-left", "after everything was freed %zu in-use bits are set in the arena, expected %zu (left-over bits only)", pc, g_arena_inuse0); return; }
    /* ... block by block (the way ordinary segments ask for it), wherever the last claims of the run happened to land ... */
    { static mi_memid_t mids[128]; static void* ps[128]; int got = 0; const int nb = g_prog->arena_blocks - (int)g_arena_inuse0;
      for (int i = 0; i < nb && i < 128; i++) { ps[i] = _mi_arena_alloc_aligned(MI_ARENA_BLOCK_SIZE, MI_ARENA_BLOCK_SIZE, 0, false, false, g_arena_id, &mids[i]); if (ps[i] == NULL) break; got++; }
      if (got < nb && got < 128) { SVIOL("arena-not-reusable", "after everything was freed only %d of the arena's %d free blocks can be allocated one at a time", got, nb); return; }
      for (int i = 0; i < got; i++) _mi_arena_free(ps[i], MI_ARENA_BLOCK_SIZE, 0, mids[i]);
    }
    /* ... and in one piece */
    mi_memid_t memid; void* p = _mi_arena_alloc_aligned((size_t)g_prog->arena_blocks * MI_ARENA_BLOCK_SIZE, MI_ARENA_BLOCK_SIZE, 0, false, false, g_arena_id, &memid);
    if (p == NULL) { SVIOL("arena-not-reusable", "after everything was freed the arena of %d blocks cannot be allocated completely", g_prog->arena_blocks); return; }
  }
}

/* ---------------- the programs ----------------------------------------------------------------------- */
#define S8 (8 * KiB)
static const cprog_t progs[] = {
  /* H1: remote frees into a page with one free block while the owner allocates through fast and generic path */
  { .name = "H1", .nthreads = 2, .quiescence = 1,
    .setup = { { { C_FILL, S8, 0, 7 } }, { { C_INIT } } },
    .run   = { { { C_MALLOC, S8, 10 }, { C_MALLOC, S8, 11 }, { C_MALLOC, S8, 12 } }, { { C_FREE, 0 }, { C_FREE, 1 } } } },
  /* H2: page in the full queue; two remote frees (first goes to the heap's delayed list, second to the page list) vs owner collect+malloc */
  { .name = "H2", .nthreads = 3, .quiescence = 1,
    .setup = { { { C_FILL, S8, 0, 9 } }, { { C_INIT } }, { { C_INIT } } },
    .run   = { { { C_COLLECT, 0 }, { C_MALLOC, S8, 10 } }, { { C_FREE, 0 } }, { { C_FREE, 1 } } } },
  /* H3: two full pages, remote frees racing the owner's delayed-free take-over inside a generic malloc */
  { .name = "H3", .nthreads = 2, .quiescence = 1,
    .setup = { { { C_FILL, S8, 0, 17 }, { C_GENERIC99 } }, { { C_INIT } } },
    .run   = { { { C_MALLOC, S8, 20 }, { C_GENERIC99 }, { C_MALLOC, S8, 21 } }, { { C_FREE, 0 }, { C_FREE, 8 }, { C_FREE, 1 } } } },
  /* H4: huge block freed remotely while the owner collects and allocates again */
  { .name = "H4", .nthreads = 2, .quiescence = 1,
    .setup = { { { C_MALLOC, 17 * MiB, 0 }, { C_MALLOC, S8, 1 } }, { { C_INIT } } },
    .run   = { { { C_COLLECT, 1 }, { C_MALLOC, 17 * MiB, 2 } }, { { C_FREE, 0 } } } },
  /* H4n: the same with a non-forced collect: the huge segment goes back to its arena without the arena being purged at once, and
     the next huge block re-uses the arena blocks as they are */
  { .name = "H4n", .nthreads = 2, .quiescence = 1,
    .setup = { { { C_MALLOC, 17 * MiB, 0 }, { C_MALLOC, S8, 1 } }, { { C_INIT } } },
    .run   = { { { C_COLLECT, 0 }, { C_MALLOC, 17 * MiB, 2 }, { C_COLLECT, 0 }, { C_MALLOC, 17 * MiB, 3 } }, { { C_FREE, 0 } } } },
  /* H6: the only page of a small size class becomes empty through a cross-thread free (it is retired, not released), is then used
     again through the fast path, and the owner force-collects and allocates again */
  { .name = "H6", .nthreads = 2, .quiescence = 1,
    .setup = { { { C_MALLOC, 64, 0 } }, { { C_INIT } } },
    .run   = { { { C_WAIT_FREE_DONE, 0, 1 }, { C_GENERIC99 }, { C_MALLOC, S8, 1 }, { C_MALLOC, 64, 2 }, { C_COLLECT, 1 }, { C_MALLOC, 64, 3 }, { C_MALLOC, 64, 4 } }, { { C_FREE_WAIT, 0 } } } },
  /* H7: blocks of fewer than 8 bytes between 8-byte neighbours that stay live: a hardened / debug build has to make room for its
     free-list link inside such a block when another thread frees it (it shrinks the block's padding), while the owner allocates and
     frees around it; H7f: the page is filled to its last block and sits in the full queue, so the frees go through the owner's delayed list */
  { .name = "H7", .nthreads = 2, .quiescence = 1,
    .setup = { { { C_MALLOC, 3, 0 }, { C_MALLOC, 8, 1 }, { C_MALLOC, 5, 2 }, { C_MALLOC, 8, 3 }, { C_MALLOC, 1, 4 }, { C_MALLOC, 8, 5 } }, { { C_INIT } } },
    .run   = { { { C_MALLOC, 7, 6 }, { C_FREE, 1 }, { C_MALLOC, 2, 7 }, { C_COLLECT, 0 } }, { { C_FREE, 0 }, { C_FREE, 2 }, { C_FREE, 4 }, { C_MALLOC, 4, 8 } } } },
  { .name = "H7f", .nthreads = 2, .quiescence = 1,
    .setup = { { { C_MALLOC, 3, 0 }, { C_MALLOC, 8, 1 }, { C_MALLOC, 5, 2 }, { C_MALLOC, 8, 3 }, { C_FILL_PAGE, 6, 10, 2, 0 }, { C_MALLOC, 8, 5 } }, { { C_INIT } } },
    .run   = { { { C_MALLOC, 7, 6 }, { C_FREE, 1 }, { C_GENERIC99 }, { C_MALLOC, 2, 7 }, { C_COLLECT, 0 } }, { { C_FREE, 0 }, { C_FREE, 2 }, { C_FREE, 10 }, { C_MALLOC, 4, 8 } } } },
  /* H5: the last block of a full page is freed remotely while the owner frees another block of it locally and retires it */
  { .name = "H5", .nthreads = 2, .quiescence = 1,
    .setup = { { { C_FILL, S8, 0, 9 } }, { { C_INIT } } },
    .run   = { { { C_FREE, 2 }, { C_FREE, 3 }, { C_COLLECT, 0 } }, { { C_FREE, 0 }, { C_FREE, 1 } } } },
  /* PC: producer/consumer with a bounded number of live blocks: 8 KiB blocks (8 per page), rounds of 8; the producer starts
     round r only after the consumer released round r-2, so frees of round r-1 interleave with the allocations of round r.
     The owner never collects; C_GENERIC99 compresses time: each round's first generic malloc is the "every 100th" one that
     runs the administrative step (delayed frees), as it would in a long run. */
  { .name = "PC", .nthreads = 2, .owner_never_collects = 1,
    .setup = { { { C_INIT } }, { { C_INIT } } },
    .run   = { { { C_GENERIC99 }, { C_FILL, S8, 0, 8 }, { C_PAGES_MARK, 0 }, { C_GENERIC99 }, { C_FILL, S8, 8, 8 }, { C_PAGES_MARK, 1 },
                 { C_WAIT_FREED, 0, 8 }, { C_GENERIC99 }, { C_FILL, S8, 16, 8 }, { C_PAGES_MARK, 2 }, { C_WAIT_FREED, 8, 8 }, { C_GENERIC99 }, { C_FILL, S8, 24, 8 }, { C_PAGES_MARK, 3 },
                 { C_WAIT_FREED, 16, 8 }, { C_GENERIC99 }, { C_FILL, S8, 32, 8 }, { C_PAGES_MARK, 4 }, { C_WAIT_FREED, 24, 8 }, { C_GENERIC99 }, { C_FILL, S8, 40, 8 }, { C_PAGES_MARK, 5 } },
               { { C_FREE_RANGE_WAIT, 0, 40 } } } },
  /* PCs: the first four rounds of PC (for deeper preemption bounds) */
  { .name = "PCs", .nthreads = 2, .owner_never_collects = 1,
    .setup = { { { C_INIT } }, { { C_INIT } } },
    .run   = { { { C_GENERIC99 }, { C_FILL, S8, 0, 8 }, { C_PAGES_MARK, 0 }, { C_GENERIC99 }, { C_FILL, S8, 8, 8 }, { C_PAGES_MARK, 1 },
                 { C_WAIT_FREED, 0, 8 }, { C_GENERIC99 }, { C_FILL, S8, 16, 8 }, { C_PAGES_MARK, 2 }, { C_WAIT_FREED, 8, 8 }, { C_GENERIC99 }, { C_FILL, S8, 24, 8 }, { C_PAGES_MARK, 3 } },
               { { C_FREE_RANGE_WAIT, 0, 24 } } } },
  /* R1: a page adopted from a terminated thread (the owner-to-be frees one of its blocks, which reclaims the abandoned segment: run with MIMALLOC_ABANDONED_RECLAIM_ON_FREE=1) fills up and moves to the full queue; another thread then frees three of its
     blocks; the owner allocates as many again (administrative step forced): they must fit without a new page.
     The adopted page and a second page are both full before the frees start, so only the freed blocks can hold the new ones. */
  { .name = "R1", .nthreads = 3, .quiescence = 0,
    .setup = { { { C_INIT } }, { { C_INIT } }, { { C_FILL, S8, 0, 8 }, { C_THREAD_DONE } } },
    .run   = { { { C_FREE, 7 }, { C_FILL, S8, 10, 9 }, { C_PAGES_MARK, 0 }, { C_WAIT_FREE_DONE, 0, 3 }, { C_GENERIC99 }, { C_FILL, S8, 20, 3 }, { C_PAGES_LE, 0, 3 } },
               { { C_WAIT_LIVE, 18 }, { C_FREE_RANGE_WAIT, 0, 3 } }, { { C_END } } } },
  /* R5 (reclaim-on-free): a page of the exiting thread becomes empty only during its exit (its blocks were freed by another thread
     just before) while the segment survives through another live block; the adopting thread (which owns no other segment) builds a
     new page in the recycled slice, fills it and a second page, another thread frees three blocks of the first: they must be
     re-usable without a new page (the recycled slice must not inherit any delayed-free state) */
  { .name = "R5", .nthreads = 3, .quiescence = 0,
    .setup = { { { C_END } }, { { C_INIT } }, { { C_FILL, S8, 0, 2 }, { C_MALLOC, 64, 5 }, { C_MALLOC, 64, 6 } } },
    .run   = { { { C_WAIT_FLAG, 1 }, { C_FREE, 6 }, { C_FILL, S8, 10, 16 }, { C_PAGES_MARK, 0 }, { C_SIGNAL, 2 }, { C_WAIT_FREE_DONE, 10, 3 }, { C_GENERIC99 }, { C_FILL, S8, 30, 3 }, { C_PAGES_LE, 0, 3 } },
               { { C_FREE_WAIT, 0 }, { C_FREE_WAIT, 1 }, { C_SIGNAL, 0 }, { C_WAIT_FLAG, 2 }, { C_FREE_RANGE_WAIT, 10, 3 } },
               { { C_WAIT_FLAG, 0 }, { C_THREAD_DONE }, { C_SIGNAL, 1 } } } },
  /* R2: the same, but the frees start as soon as the adopted page is full, racing with the owner moving it to the full queue */
  { .name = "R2", .nthreads = 3, .quiescence = 0,
    .setup = { { { C_INIT } }, { { C_INIT } }, { { C_FILL, S8, 0, 8 }, { C_THREAD_DONE } } },
    .run   = { { { C_FREE, 7 }, { C_FILL, S8, 10, 9 }, { C_PAGES_MARK, 0 }, { C_WAIT_FREE_DONE, 0, 3 }, { C_GENERIC99 }, { C_FILL, S8, 20, 3 }, { C_PAGES_LE, 0, 3 } },
               { { C_WAIT_LIVE, 10 }, { C_FREE_RANGE_WAIT, 0, 3 } }, { { C_END } } } },
  /* AB1: an abandoned segment with a live page and a free span whose purge is pending; one thread runs a forced collect (which
     visits abandoned segments and purges them) while another adopts the segment (by freeing one of its blocks, reclaim-on-free)
     and allocates 1 MiB blocks, which land in the span */
  { .name = "AB1", .nthreads = 3, .quiescence = 0,
    .setup = { { { C_INIT } }, { { C_INIT } }, { { C_FILL, S8, 0, 2 }, { C_MALLOC, 1 * MiB, 5 }, { C_FREE, 5 }, { C_THREAD_DONE } } },
    .run   = { { { C_COLLECT, 1 } }, { { C_FREE, 0 }, { C_MALLOC, 1 * MiB, 6 }, { C_MALLOC, 1 * MiB, 7 } }, { { C_END } } } },
  /* AB2: a thread without any segment needs one for a 4 MiB block and visits the abandoned segments first. The only one is
     full except for a 1 MiB span whose purge is pending and (after the tick) due: not suitable, so it is purged and handed
     back -- while another thread adopts it (reclaim-on-free, by freeing a small block of it) and allocates 1 MiB, which only fits that span */
  { .name = "AB2", .nthreads = 3, .quiescence = 0, .sparse = 1,
    .setup = { { { C_END } }, { { C_INIT } }, { { C_FILL, 4 * MiB, 0, 7 }, { C_FILL, 1 * MiB, 10, 3 }, { C_MALLOC, S8, 15 }, { C_FREE, 11 }, { C_THREAD_DONE } } },
    .run   = { { { C_TICK, 1000 }, { C_MALLOC, 4 * MiB, 20 } }, { { C_FREE, 15 }, { C_MALLOC, 1 * MiB, 21 } }, { { C_END } } } },
  /* R3: like R1 without adoption, but the page that goes to the full queue also holds a live over-allocated aligned block (interior
     pointer): the remote frees into it must make it usable again all the same */
  { .name = "R3", .nthreads = 2, .quiescence = 0,
    .setup = { { { C_INIT } }, { { C_INIT } } },
    .run   = { { { C_MALLOC_AL_AT, 4000, 0, 4096 }, { C_FILL, S8, 1, 7 }, { C_FILL, S8, 10, 8 }, { C_PAGES_MARK, 0 }, { C_WAIT_FREE_DONE, 1, 3 }, { C_GENERIC99 }, { C_FILL, S8, 20, 3 }, { C_PAGES_LE, 0, 3 } },
               { { C_WAIT_LIVE, 17 }, { C_FREE_RANGE_WAIT, 1, 3 } } } },
  /* R4: a small size class (1024 bytes: served by the fast path through the direct-page table, so a page that hands out its last block
     stays at the head of its queue unseen). Page A is in the full queue, page B (head) is exhausted; another thread frees three blocks of
     A; the owner's next allocation brings A back behind B and has to find it there instead of taking a fresh page */
  { .name = "R4", .nthreads = 2, .quiescence = 0,
    .setup = { { { C_INIT } }, { { C_INIT } } },
    .run   = { { { C_FILL_PAGE, 1024, 0, 4, 0 }, { C_FILL_PAGE, 1024, 10, 1, 1 }, { C_PAGES_MARK, 0 }, { C_SIGNAL, 0 }, { C_WAIT_FREE_DONE, 1, 3 }, { C_GENERIC99 }, { C_FILL, 1024, 20, 3 }, { C_PAGES_LE, 0, 3 } },
               { { C_WAIT_FLAG, 0 }, { C_FREE_RANGE_WAIT, 1, 3 } } } },
  /* E1: thread exit racing a remote free of one of its blocks and an allocation that reclaims */
  { .name = "E1", .leakcheck = 1, .nthreads = 3, .quiescence = 0,
    .setup = { { { C_INIT } }, { { C_MALLOC, S8, 0 }, { C_MALLOC, S8, 1 } }, { { C_INIT } } },
    .run   = { { { C_FREE, 0 } }, { { C_THREAD_DONE } }, { { C_MALLOC, S8, 5 }, { C_MALLOC, 100 * KiB, 6 } } } },
  /* E2: two segments abandoned by finished threads (threads 2 and 3; they exit last in the setup so that nobody adopts
     their segments before the explored phase); threads 0 and 1 allocate and free into them and may both try to adopt */
  { .name = "E2", .leakcheck = 1, .nthreads = 4, .quiescence = 0,
    .setup = { { { C_INIT } }, { { C_INIT } }, { { C_MALLOC, S8, 0 }, { C_MALLOC, 100 * KiB, 1 }, { C_THREAD_DONE } }, { { C_MALLOC, S8, 2 }, { C_THREAD_DONE } } },
    .run   = { { { C_MALLOC, 100 * KiB, 5 }, { C_FREE, 2 } }, { { C_MALLOC, S8, 6 }, { C_FREE, 0 } }, { { C_END } }, { { C_END } } } },
  /* E3: forced abandonment: the owner holds two segments (34 single-block 1 MiB pages overflow the first one, a full page of
     8 KiB blocks sits in the second) and reduces to a target of two segments, which force-abandons; meanwhile another thread
     frees blocks of both segments */
  { .name = "E3", .leakcheck = 1, .nthreads = 2, .quiescence = 0,
    .setup = { { { C_FILL, 1 * MiB, 0, 34 }, { C_FILL, S8, 40, 9 } }, { { C_INIT } } },
    .run   = { { { C_COLLECT_REDUCE, 64 * MiB }, { C_MALLOC, S8, 60 } }, { { C_FREE, 40 }, { C_FREE, 0 }, { C_FREE, 41 } } } },
  /* E3b: as E3, and both threads allocate from that size class afterwards: a page that the forced abandonment left linked in the old
     owner's queue while the other thread adopts it would be handed out by both */
  { .name = "E3b", .leakcheck = 1, .nthreads = 2, .quiescence = 0,
    .setup = { { { C_FILL, 1 * MiB, 0, 34 }, { C_FILL, S8, 40, 9 } }, { { C_INIT } } },
    .run   = { { { C_WAIT_FREE_DONE, 40, 1 }, { C_COLLECT_REDUCE, 64 * MiB }, { C_MALLOC, S8, 60 }, { C_MALLOC, S8, 61 }, { C_MALLOC, S8, 62 } }, { { C_FREE_WAIT, 40 }, { C_FREE, 41 }, { C_MALLOC, S8, 70 }, { C_MALLOC, S8, 71 }, { C_MALLOC, S8, 72 } } } },
  /* E3c (run with MIMALLOC_TARGET_SEGMENTS_PER_THREAD=2 and reclaim-on-free): thread 0 is at its segment target; a page of it sits in
     the full queue with a cross-thread free pending in the heap's delayed list (processed only every 100th generic call) and its
     size queue is empty. An allocation that needs a fresh segment force-abandons the segment of that page (processing the pending
     free, which moves the page between queues, on the way); thread 1 adopts the segment by freeing into it; then both allocate
     from that size class */
  { .name = "E3c", .leakcheck = 1, .nthreads = 2, .quiescence = 0,
    .setup = { { { C_MALLOC, 20 * MiB, 30 }, { C_FILL, S8, 40, 9 }, { C_FREE, 48 }, { C_COLLECT, 0 }, { C_FILL, 12 * MiB, 50, 2 } }, { { C_INIT } } },
    .run   = { { { C_WAIT_FREE_DONE, 40, 2 }, { C_MALLOC, 12 * MiB, 60 }, { C_SIGNAL, 0 }, { C_MALLOC, S8, 61 }, { C_MALLOC, S8, 62 } },
               { { C_FREE_WAIT, 40 }, { C_FREE_WAIT, 41 }, { C_WAIT_FLAG, 0 }, { C_FREE, 42 }, { C_MALLOC, S8, 70 }, { C_MALLOC, S8, 71 } } } },
  /* E3d (MIMALLOC_TARGET_SEGMENTS_PER_THREAD=2): as E3c, but the other thread frees every block of the segment that is about to be
     force-abandoned (a full page of eight and two single-block pages): flushing the delayed list during the forced abandonment empties
     the segment while the loop over its pages is still running */
  { .name = "E3d", .leakcheck = 1, .nthreads = 2, .quiescence = 0,
    .setup = { { { C_MALLOC, 20 * MiB, 30 }, { C_FILL, S8, 40, 9 }, { C_FREE, 48 }, { C_COLLECT, 0 }, { C_FILL, 12 * MiB, 50, 2 } }, { { C_INIT } } },
    .run   = { { { C_WAIT_FREE_DONE, 40, 8 }, { C_WAIT_FREE_DONE, 50, 2 }, { C_MALLOC, 12 * MiB, 60 }, { C_MALLOC, S8, 61 }, { C_COLLECT, 1 } },
               { { C_FREE_RANGE_WAIT, 40, 8 }, { C_FREE_WAIT, 50 }, { C_FREE_WAIT, 51 }, { C_MALLOC, S8, 70 } } } },
  /* E5: two remote frees into one abandoned segment (with reclaim-on-free both try to adopt it), then both allocate */
  { .name = "E5", .leakcheck = 1, .nthreads = 3, .quiescence = 0,
    .setup = { { { C_INIT } }, { { C_INIT } }, { { C_MALLOC, 1024, 0 }, { C_MALLOC, 1024, 1 }, { C_MALLOC, 1024, 2 }, { C_THREAD_DONE } } },
    .run   = { { { C_FREE, 0 }, { C_MALLOC, 1024, 5 }, { C_MALLOC, 1024, 6 } }, { { C_FREE, 1 }, { C_MALLOC, 1024, 7 }, { C_MALLOC, 1024, 8 } }, { { C_END } } } },
  /* E6: three segments of three threads; two of the threads are gone; the owner-to-be frees the block in the most recently
     abandoned segment (adopting it with reclaim-on-free), the third thread exits, then the block in the oldest abandoned
     segment is freed: with segments straight from the OS this walks the list of abandoned OS segments (unlink of its last
     entry, append, lookup of an older entry); in the end nothing may stay mapped */
  { .name = "E6", .leakcheck = 1, .nthreads = 4, .quiescence = 0,
    .setup = { { { C_INIT } }, { { C_MALLOC, S8, 2 } }, { { C_MALLOC, S8, 0 }, { C_THREAD_DONE } }, { { C_MALLOC, S8, 1 }, { C_THREAD_DONE } } },
    .run   = { { { C_FREE, 1 }, { C_WAIT_FLAG, 0 }, { C_FREE, 0 }, { C_FREE, 2 } }, { { C_THREAD_DONE }, { C_SIGNAL, 0 } }, { { C_END } }, { { C_END } } } },
  /* E7: two sub-processes with one abandoned arena segment each: a thread of the second one collects (its scan passes over the segment
     of the main sub-process), the last block of the second sub-process' abandoned segment is then freed by a thread that cannot adopt
     it, and a forced collect of the second sub-process has to find and release that segment */
  { .name = "E7", .leakcheck = 1, .nthreads = 4, .quiescence = 0,
    .setup = { { { C_INIT } }, { { C_SUBPROC_JOIN, 0 }, { C_INIT } }, { { C_MALLOC, S8, 0 }, { C_THREAD_DONE } }, { { C_SUBPROC_JOIN, 0 }, { C_MALLOC, S8, 1 }, { C_THREAD_DONE } } },
    .run   = { { { C_WAIT_FLAG, 1 }, { C_FREE, 1 }, { C_SIGNAL, 0 }, { C_FREE, 0 } }, { { C_COLLECT, 0 }, { C_SIGNAL, 1 }, { C_WAIT_FLAG, 0 }, { C_COLLECT, 1 } }, { { C_END } }, { { C_END } } } },
  /* E8 (run with a 32 MiB arena reserve): the exiting thread leaves a small block in an arena segment and a 40 MiB block in a segment
     straight from the OS; the big one is freed by a second thread and, after that, a forced collect of a third (which first walks the arena's abandoned
     segments, still holding the small block, and then the list of abandoned OS segments) has to release it */
  { .name = "E8", .leakcheck = 1, .nthreads = 3, .quiescence = 0,
    .setup = { { { C_INIT } }, { { C_INIT } }, { { C_MALLOC, S8, 0 }, { C_MALLOC, 40 * MiB, 1 }, { C_THREAD_DONE } } },
    .run   = { { { C_WAIT_FLAG, 0 }, { C_COLLECT, 1 }, { C_EXPECT_UNMAPPED, 1 }, { C_FREE, 0 } }, { { C_FREE, 1 }, { C_SIGNAL, 0 } }, { { C_END } } } },
  /* E9: the exiting thread owns two pages of one segment in different size classes; the block of the higher class is freed by another
     thread around the exit (its page becomes empty and is released during the exit, after the other page was abandoned), the other
     block later: the segment must end up abandoned (adoptable, and released with its last block), not orphaned */
  { .name = "E9", .leakcheck = 1, .nthreads = 3, .quiescence = 0,
    .setup = { { { C_INIT } }, { { C_INIT } }, { { C_MALLOC, 64, 0 }, { C_MALLOC, S8, 1 } } },
    .run   = { { { C_FREE, 1 }, { C_WAIT_FLAG, 1 }, { C_FREE, 0 } }, { { C_END } }, { { C_THREAD_DONE }, { C_SIGNAL, 1 } } } },
  /* E10: a thread exits while its arena-bound heap (not compatible with its backing heap: the pages cannot be absorbed, they are
     abandoned) holds live blocks; one block is freed around the exit, the others later: the arena must end up completely free */
  { .name = "E10", .leakcheck = 1, .nthreads = 2, .quiescence = 0, .arena_blocks = 4, .arena_heap = 1,
    .setup = { { { C_INIT } }, { { C_HEAP_NEW, 1 }, { C_HFILL, 1, S8, 0, 3 } } },
    .run   = { { { C_FREE, 0 }, { C_WAIT_FLAG, 1 }, { C_FREE, 1 }, { C_FREE, 2 } }, { { C_THREAD_DONE }, { C_SIGNAL, 1 } } } },
  /* E4: sub-processes: a thread of another sub-process allocates while a segment of the main one is abandoned */
  { .name = "E4", .leakcheck = 1, .nthreads = 3, .quiescence = 0,
    .setup = { { { C_INIT } }, { { C_MALLOC, S8, 0 }, { C_MALLOC, S8, 1 } }, { { C_SUBPROC }, { C_INIT } } },
    .run   = { { { C_FREE, 0 } }, { { C_THREAD_DONE } }, { { C_MALLOC, S8, 5 }, { C_MALLOC, 100 * KiB, 6 } } } },
  /* D1: heap delete while two other threads free blocks of that heap (same full page) */
  { .name = "D1", .nthreads = 3, .quiescence = 1,
    .setup = { { { C_HEAP_NEW, 1 }, { C_HFILL, 1, S8, 0, 9 } }, { { C_INIT } }, { { C_INIT } } },
    .run   = { { { C_HEAP_DELETE, 1 } }, { { C_FREE, 0 } }, { { C_FREE, 1 } } } },
  /* D2: heap collect (forced and not) while blocks of that heap are freed remotely */
  { .name = "D2", .nthreads = 2, .quiescence = 1,
    .setup = { { { C_HEAP_NEW, 1 }, { C_HFILL, 1, S8, 0, 9 } }, { { C_INIT } } },
    .run   = { { { C_HEAP_COLLECT, 1, 0 }, { C_HEAP_COLLECT, 1, 1 }, { C_HMALLOC, 1, S8, 12 } }, { { C_FREE, 0 }, { C_FREE, 1 } } } },
  /* D3: two full pages in the heap being deleted; frees arrive while pages are re-targeted one after the other */
  { .name = "D3", .nthreads = 2, .quiescence = 1,
    .setup = { { { C_HEAP_NEW, 1 }, { C_HFILL, 1, S8, 0, 17 } }, { { C_INIT } } },
    .run   = { { { C_HEAP_DELETE, 1 } }, { { C_FREE, 8 }, { C_FREE, 0 } } } },
  /* D4: heap delete while two other threads each free a block of the same full page of that heap (both frees can be inside their
     delayed-freeing windows when the delete drains the heap's delayed list) */
  { .name = "D4", .nthreads = 3, .quiescence = 1,
    .setup = { { { C_HEAP_NEW, 1 }, { C_HFILL, 1, S8, 0, 9 } }, { { C_INIT } }, { { C_INIT } } },
    .run   = { { { C_HEAP_DELETE, 1 } }, { { C_FREE, 0 } }, { { C_FREE, 1 } } } },
  /* A1: arena seam: concurrent multi-block claims that cross a bitmap word boundary, a free, and a purge */
  { .name = "A1", .nthreads = 3, .arena_blocks = 70,
    .setup = { { { C_ARENA_ALLOC, 60, 0 } }, { { C_INIT } }, { { C_INIT } } },
    .run   = { { { C_ARENA_ALLOC, 5, 10 }, { C_ARENA_FREE, 10 } }, { { C_ARENA_ALLOC, 4, 11 } }, { { C_ARENA_ALLOC, 3, 12 }, { C_ARENA_FREE, 12 } } } },
  /* A4: single- and two-block claims (the path ordinary segments take) in an arena of two bitmap words: the first word is full, claims
     land in the second, then blocks of the first word are freed and later small claims must find them (and, after everything was
     freed, the arena must be allocatable block by block) */
  { .name = "A4", .nthreads = 3, .arena_blocks = 70,
    .setup = { { { C_ARENA_ALLOC, 62, 0 }, { C_ARENA_ALLOC, 2, 1 } }, { { C_INIT } }, { { C_INIT } } },
    .run   = { { { C_ARENA_ALLOC, 1, 10 }, { C_ARENA_FREE, 1 }, { C_ARENA_ALLOC, 2, 11 } }, { { C_ARENA_ALLOC, 2, 12 }, { C_ARENA_ALLOC, 1, 13 } }, { { C_ARENA_ALLOC, 1, 14 }, { C_ARENA_FREE, 14 } } } },
  /* A3: a cross-word claim that loses its final word to a competing claim and has to roll back its initial word while a
     third thread frees other blocks of that same word (arena: 70 blocks; bits 0..59 taken, 58..59 freed during the race) */
  { .name = "A3", .nthreads = 3, .arena_blocks = 70,
    .setup = { { { C_ARENA_ALLOC, 58, 0 }, { C_ARENA_ALLOC, 2, 1 } }, { { C_INIT } }, { { C_INIT } } },
    .run   = { { { C_ARENA_ALLOC, 5, 10 } }, { { C_ARENA_ALLOC, 6, 11 } }, { { C_ARENA_FREE, 1 } } } },
  /* A2: arena free (schedules / performs a purge) racing an allocation that may take the same blocks, plus a collector */
  { .name = "A2", .nthreads = 3, .arena_blocks = 8,
    .setup = { { { C_ARENA_ALLOC, 1, 0 }, { C_ARENA_ALLOC, 2, 1 } }, { { C_INIT } }, { { C_INIT } } },
    .run   = { { { C_ARENA_FREE, 0 }, { C_ARENA_FREE, 1 } }, { { C_ARENA_ALLOC, 1, 10 }, { C_ARENA_ALLOC, 2, 11 } }, { { C_TICK, 2000 }, { C_ARENAS_COLLECT, 0 }, { C_ARENAS_COLLECT, 1 } } } },
};
#define NPROGS (sizeof(progs) / sizeof(progs[0]))

/* generated family: programs over two shared blocks a,b on one page and a small op alphabet */
static cprog_t g_family;
static const cop_t fam_ops[] = { { C_MALLOC, S8, 0 }, { C_FREE, 0 }, { C_FREE, 1 }, { C_COLLECT, 0 }, { C_COLLECT, 1 } };
#define NFAM 5
static int family_count(void) { return NFAM * NFAM * NFAM * NFAM /* 2 threads x 2 ops */ + NFAM * NFAM * NFAM /* 3 threads x 1 op */; }
static const cprog_t* family_prog(int k) {
  memset(&g_family, 0, sizeof(g_family));
  static char name[32]; snprintf(name, sizeof(name), "F%d", k); g_family.name = name; g_family.quiescence = 1;
  int nslot = 10;
  if (k < NFAM * NFAM * NFAM * NFAM) {
    g_family.nthreads = 2;
    int idx[4] = { k % NFAM, (k / NFAM) % NFAM, (k / (NFAM * NFAM)) % NFAM, k / (NFAM * NFAM * NFAM) };
    for (int t = 0; t < 2; t++) for (int j = 0; j < 2; j++) { cop_t o = fam_ops[idx[t * 2 + j]]; if (o.code == C_MALLOC) o.b = nslot++; g_family.run[t][j] = o; }
  } else {
    k -= NFAM * NFAM * NFAM * NFAM;
    g_family.nthreads = 3;
    int idx[3] = { k % NFAM, (k / NFAM) % NFAM, k / (NFAM * NFAM) };
    for (int t = 0; t < 3; t++) { cop_t o = fam_ops[idx[t]]; if (o.code == C_MALLOC) o.b = nslot++; g_family.run[t][0] = o; }
  }
  g_family.setup[0][0] = (cop_t){ C_FILL, S8, 0, 8 };     /* a, b and six more: the page is full (next generic malloc moves it to the full queue) */
  for (int t = 1; t < g_family.nthreads; t++) g_family.setup[t][0] = (cop_t){ C_INIT, 0, 0, 0, 0 };
  return &g_family;
}

int main(int argc, char** argv) {
  vf_prop = vf_arg(argc, argv, "--prop", "C02");
  vf_outdir = vf_arg(argc, argv, "--outdir", "/verif");
  const char* pname = vf_arg(argc, argv, "--prog", "H1");
  const char* out = vf_arg(argc, argv, "--out", NULL);
  const char* replay = vf_arg(argc, argv, "--replay", NULL);
  int fam_lo = atoi(vf_arg(argc, argv, "--family-lo", "-1")), fam_hi = atoi(vf_arg(argc, argv, "--family-hi", "-1"));
  vf_verbose = vf_flag(argc, argv, "-v");
  if (vf_verbose) vf_install_crash_handler();
  vf_xcfg_t cfg = { .bound = atoi(vf_arg(argc, argv, "--bound", "2")), .sbound = atoi(vf_arg(argc, argv, "--sbound", "1")), .npar = atoi(vf_arg(argc, argv, "--par", "16")),
                    .horizon = atol(vf_arg(argc, argv, "--horizon", "200000")), .before = c_before, .after = c_after };
  vf_shared_init(atof(vf_arg(argc, argv, "--deadline", "600")));
  if (!vf_verbose) mi_register_output(&vf_out_null, NULL);
  mi_register_error(&vf_error_cb, NULL);
  vf_replay_extra = &vf_dump_conflict_set;
  (void)mi_heap_get_default();
  if (replay) {
    if (vf_load_replay(replay) < 0) return 2;
    char pn[32] = "H1"; int b = 2, sb = 1;
    sscanf(vf_cfg, "%31s bound=%d sbound=%d", pn, &b, &sb);
    pname = strdup(pn); cfg.sbound = sb;
    vf_load_conflict_set(replay);
  }
  vf_xstats_t total; memset(&total, 0, sizeof(total)); total.bound_completed = 99;
  int rc = 0; long nprogs = 0;
  vf_prog_t vp = { 0, t_setup, t_run, t_teardown };
  if (pname[0] == 'F' && replay) { g_prog = family_prog(atoi(pname + 1)); }
  else if (fam_lo < 0 || replay) {
    g_prog = NULL;
    for (size_t i = 0; i < NPROGS; i++) if (strcmp(progs[i].name, pname) == 0) g_prog = &progs[i];
    if (!g_prog) { fprintf(stderr, "unknown program %s\n", pname); return 2; }
  }
  if (replay && !strstr(vf_cfg, " race")) {
    vp.nthreads = g_prog->nthreads;
    snprintf(vf_cfg, sizeof(vf_cfg), "%s bound=%d sbound=%d", g_prog->name, cfg.bound, cfg.sbound);
    int r = vf_replay_schedule(&vp, &cfg);
    if (r == 2) return 2;
    if (vf_sh->nviol > 0) printf("REPLAY violation key=%s msg=%s\n", vf_sh->viol[0].key, vf_sh->viol[0].msg); else printf("REPLAY no violation\n");
    return vf_sh->nviol > 0 ? 1 : 0;
  }
  int lo = (fam_lo >= 0 ? fam_lo : 0), hi = (fam_lo >= 0 ? (fam_hi < family_count() ? fam_hi : family_count()) : 1);
  int race_runs = atoi(vf_arg(argc, argv, "--race", "0"));
  if (replay && strstr(vf_cfg, " race")) race_runs = 100;
  if (race_runs > 0) {
    /* race pass (build variant tsan): the same program bodies with free-running threads, `race_runs` times each, every run in a
       fresh process. The token scheduler only interleaves at atomic operations, lock operations and address-space calls: it
       relies on plain accesses being ordered by those. This pass keeps that assumption honest: ThreadSanitizer watches the plain
       accesses of the free-running threads; a report makes the child exit with status 66 and is written to the log given in
       TSAN_OPTIONS (--race-log names the same prefix so that the first report can be quoted). A supplementary sampling pass:
       it decides nothing about the schedules explored, it only guards their premise. */
    const char* rlog = vf_arg(argc, argv, "--race-log", NULL);
    long runs = 0, flagged = 0, failed = 0; const char* first_prog = NULL;
    g_race = 1; vf_sched_free_run(1); g_selftest = (getenv("VF_RACE_SELFTEST") != NULL);
    for (int k = lo; k < hi; k++) {
      if (fam_lo >= 0 && !replay) g_prog = family_prog(k);
      vp.nthreads = g_prog->nthreads;
      snprintf(vf_cfg, sizeof(vf_cfg), "%s race", g_prog->name);
      for (int r = 0; r < race_runs; r++) {
        pid_t pid = fork();
        if (pid == 0) { static vf_trace_t tr; vf_child_exec(&vp, &cfg, NULL, 0, &tr); exit(vf_sh->nviol > 0 ? 1 : 0); }
        int status = 0; waitpid(pid, &status, 0); runs++;
        if (WIFEXITED(status) && WEXITSTATUS(status) == 66) { if (!flagged) first_prog = g_prog->name; flagged++; }
        else if (!(WIFEXITED(status) && WEXITSTATUS(status) == 0)) { failed++; if (vf_verbose) fprintf(stderr, "race run of %s ended with status 0x%x\n", g_prog->name, status); }
      }
      if (flagged && vf_sh->nviol == 0) {
        char summary[300] = "(no log)"; 
        if (rlog) { char cmd[600]; snprintf(cmd, sizeof(cmd), "grep -h -m1 SUMMARY %s.* 2>/dev/null | head -1", rlog); FILE* f = popen(cmd, "r"); if (f) { if (fgets(summary, sizeof(summary), f)) { size_t l = strlen(summary); if (l && summary[l - 1] == '\n') summary[l - 1] = 0; } pclose(f); } }
        vf_depth = 0;
        vf_violation("data-race", "ThreadSanitizer reported a data race in %ld of %ld free-running executions of program %s: %s (reports: %s.*)", flagged, runs, first_prog, summary, rlog ? rlog : "stderr");
      }
    }
    char ex[300]; snprintf(ex, sizeof(ex), "\"prog\":\"%s\",\"race_runs\":%ld,\"race_flagged_runs\":%ld,\"race_failed_runs\":%ld", fam_lo >= 0 ? "family" : g_prog->name, runs, flagged, failed);
    VF_ADD(nodes, runs);
    if (replay) { if (vf_sh->nviol > 0) printf("REPLAY violation key=%s msg=%s\n", vf_sh->viol[0].key, vf_sh->viol[0].msg); else printf("REPLAY no violation\n"); return vf_sh->nviol > 0 ? 1 : 0; }
    if (out) vf_write_result(out, ex);
    if (failed > 0) { fprintf(stderr, "%ld race runs ended abnormally\n", failed); return 2; }
    return vf_sh->nviol > 0 ? 1 : 0;
  }
  for (int k = lo; k < hi && rc == 0 && !vf_sh->deadline_hit; k++) {
    if (fam_lo >= 0) g_prog = family_prog(k);
    vp.nthreads = g_prog->nthreads;
    snprintf(vf_cfg, sizeof(vf_cfg), "%s bound=%d sbound=%d", g_prog->name, cfg.bound, cfg.sbound);
    vf_xstats_t st;
    rc = vf_explore(&vp, &cfg, &st);
    nprogs++;
    total.executions += st.executions; total.choice_points += st.choice_points; total.points += st.points; total.shared_points += st.shared_points; total.rounds += st.rounds;
    if (st.max_choices > total.max_choices) total.max_choices = st.max_choices;
    if (st.max_enabled > total.max_enabled) total.max_enabled = st.max_enabled;
    if (st.conflict_addrs > total.conflict_addrs) total.conflict_addrs = st.conflict_addrs;
    total.distinct_outcomes += st.distinct_outcomes; total.preempted_execs += st.preempted_execs; total.spurious_execs += st.spurious_execs; total.overflowed += st.overflowed;
    if (st.bound_completed < total.bound_completed) total.bound_completed = st.bound_completed;
    VF_ADD(states, st.distinct_outcomes);
    if (st.distinct_outcomes > 1) VF_INC(nontrivial);
  }
  char extra[700];
  snprintf(extra, sizeof(extra), "\"prog\":\"%s\",\"programs\":%ld,\"executions\":%ld,\"choice_points\":%ld,\"instrumented_ops\":%ld,\"ops_on_conflict_addrs\":%ld,\"passes\":%ld,\"max_choice_points_per_exec\":%ld,\"max_enabled\":%d,\"conflict_addrs\":%ld,\"distinct_outcomes\":%ld,\"bound_completed\":%d,\"bound\":%d,\"sbound\":%d,\"preempted_execs\":%ld,\"spurious_execs\":%ld,\"overflowed\":%ld,\"threads\":%d",
           fam_lo >= 0 ? "family" : g_prog->name, nprogs, total.executions, total.choice_points, total.points, total.shared_points, total.rounds, total.max_choices, total.max_enabled, total.conflict_addrs, total.distinct_outcomes, total.bound_completed, cfg.bound, cfg.sbound, total.preempted_execs, total.spurious_execs, total.overflowed, g_prog ? g_prog->nthreads : 0);
  if (out) vf_write_result(out, extra);
  if (vf_sh->infra_error || rc == 2) return 2;
  return vf_sh->nviol > 0 ? 1 : 0;
}
