/* h_seq.c -- sequential exploration harness: every sequence of API operations over a small alphabet
 * ("profile") up to depth D, from several start states, each node checked against the reference
 * model.  Serves C01, C04, C05, C10 (sequential part), C12, C13, C03 (profile P5).
 *
 * usage: h_seq --prop C01 --profile P1 --start S0 --depth 5 --out res.json [--deadline s] [--prune]
 *              [--observe walk,owner] [--dirty] [--replay file] [-v]
 */
#include <sys/prctl.h>
#include "src/static.c"
#include "verif_post.h"
#include "vf_harness.h"

/* ---------------- operations ---------------------------------------------------------------- */
enum {
  OP_MALLOC = 1,     /* a = size */
  OP_ZALLOC,         /* a = size */
  OP_ALIGNED,        /* a = size, b = alignment */
  OP_ZALIGNED,       /* a = size, b = alignment */
  OP_FREE,           /* a = live index */
  OP_REALLOC,        /* a = live index, b = new size */
  OP_REZALLOC,       /* a = live index (zero-tracked), b = new size */
  OP_REALLOC_AL,     /* a = live index, b = new size; alignment = block's own alignment (or 32) */
  OP_COLLECT,        /* a = force */
  OP_FILL,           /* a = size: allocate a page-full (8 blocks) */
  OP_HEAP_NEW,       /* creates heap in first free slot */
  OP_HMALLOC,        /* a = heap slot, b = size */
  OP_HEAP_DELETE,    /* a = heap slot */
  OP_HEAP_DESTROY,   /* a = heap slot */
  OP_SET_DEFAULT,    /* a = heap slot (0 = backing) */
  OP_TICK,           /* a = milliseconds */
  OP_WALK,           /* visit all blocks of every heap (perturbs: collects) */
  OP_REMOTE_FREE,    /* a = live index: freed by a helper thread that is joined before the op ends */
  OP_THREAD_ALLOC,   /* a = size: helper thread allocates 2 blocks, hands them to the model, exits (abandons) */
  OP_CALLOC,         /* a = count, b = size */
  OP_RECALLOC,       /* a = live index, b = new size (count = 1) */
  OP_EXPAND,         /* a = live index, b = 0: to usable, 1: usable+1 */
  OP_FREE_SIZE,      /* a = live index : mi_free_size / mi_free_aligned variants by parity */
  OP_FREE_EVERY,     /* a = stride k, b = phase: free every k-th live block (hole patterns) */
  OP_AHEAP_NEW,      /* heap slot 1 := mi_heap_new_in_arena(the managed arena) */
  OP_THREAD_ARENA,   /* helper thread: creates an arena-bound heap, allocates a = size twice (kept live), exits */
  OP_THREAD_MANY,    /* helper thread: default heap, allocates b blocks of a bytes, keeps the first and last live, exits */
  OP_DFREE,          /* a = index into the list of released blocks: free it a second time (hardened builds) */
  OP_OVER,           /* a = live index: write one foreign byte just past the requested size, then free the block */
  OP_LINK,           /* a = index into the list of released blocks: overwrite its free-list link with a forged value */
  OP_HFILL,          /* a = heap slot, b = size: nine blocks (a full page of 8 plus one: the full page moves to the heap's full queue) */
  OP_THREAD_ALIGNED, /* a = size, b = alignment: helper thread allocates 2 aligned blocks, hands them to the model, exits (abandons) */
  OP_HALIGNED,       /* a = size, b = alignment: mi_heap_malloc_aligned from heap slot 1 (the arena-bound heap) */
  OP_THREAD_HEAPS,   /* a = size: helper thread creates two heaps, allocates 2 blocks in the newer one, deletes the older one, exits */
  OP_FREE_PAGE,      /* a = live index: free every live block that shares a page with it (newest first) */
  OP_LAST      /* new codes go before this line only: replay files carry the numbers */
};

static void vf_op_str(vf_op_t op, char* buf, size_t n) {
  switch (op.code) {
    case OP_MALLOC:       snprintf(buf, n, "malloc(%ld)", op.a); break;
    case OP_ZALLOC:       snprintf(buf, n, "zalloc(%ld)", op.a); break;
    case OP_ALIGNED:      snprintf(buf, n, "malloc_aligned(%ld,%ld)", op.a, op.b); break;
    case OP_ZALIGNED:     snprintf(buf, n, "zalloc_aligned(%ld,%ld)", op.a, op.b); break;
    case OP_FREE:         snprintf(buf, n, "free(#%ld)", op.a); break;
    case OP_REALLOC:      snprintf(buf, n, "realloc(#%ld,%ld)", op.a, op.b); break;
    case OP_REZALLOC:     snprintf(buf, n, "rezalloc(#%ld,%ld)", op.a, op.b); break;
    case OP_REALLOC_AL:   snprintf(buf, n, "realloc_aligned(#%ld,%ld)", op.a, op.b); break;
    case OP_COLLECT:      snprintf(buf, n, "collect(%ld)", op.a); break;
    case OP_FILL:         snprintf(buf, n, "fill(%ld)", op.a); break;
    case OP_HEAP_NEW:     snprintf(buf, n, "heap_new"); break;
    case OP_HMALLOC:      snprintf(buf, n, "heap_malloc(h%ld,%ld)", op.a, op.b); break;
    case OP_HEAP_DELETE:  snprintf(buf, n, "heap_delete(h%ld)", op.a); break;
    case OP_HEAP_DESTROY: snprintf(buf, n, "heap_destroy(h%ld)", op.a); break;
    case OP_SET_DEFAULT:  snprintf(buf, n, "set_default(h%ld)", op.a); break;
    case OP_TICK:         snprintf(buf, n, "tick(%ld)", op.a); break;
    case OP_WALK:         snprintf(buf, n, "walk"); break;
    case OP_REMOTE_FREE:  snprintf(buf, n, "remote_free(#%ld)", op.a); break;
    case OP_THREAD_ALLOC: snprintf(buf, n, "thread_alloc(%ld)", op.a); break;
    case OP_CALLOC:       snprintf(buf, n, "calloc(%ld,%ld)", op.a, op.b); break;
    case OP_RECALLOC:     snprintf(buf, n, "recalloc(#%ld,1,%ld)", op.a, op.b); break;
    case OP_EXPAND:       snprintf(buf, n, "expand(#%ld,usable+%ld)", op.a, op.b); break;
    case OP_FREE_SIZE:    snprintf(buf, n, "free_size(#%ld)", op.a); break;
    case OP_FREE_EVERY:   snprintf(buf, n, "free_every(%ld,%ld)", op.a, op.b); break;
    case OP_FREE_PAGE:    snprintf(buf, n, "free_page_of(#%ld)", op.a); break;
    case OP_HFILL:        snprintf(buf, n, "heap_fill(h%ld,%ld)", op.a, op.b); break;
    case OP_THREAD_ALIGNED: snprintf(buf, n, "thread_alloc_aligned(%ld,%ld)", op.a, op.b); break;
    case OP_HALIGNED:     snprintf(buf, n, "heap_malloc_aligned(h1,%ld,%ld)", op.a, op.b); break;
    case OP_THREAD_HEAPS: snprintf(buf, n, "thread_two_heaps_alloc(%ld)", op.a); break;
    case OP_AHEAP_NEW:    snprintf(buf, n, "heap_new_in_arena"); break;
    case OP_THREAD_ARENA: snprintf(buf, n, "thread_arena_alloc(%ld)", op.a); break;
    case OP_THREAD_MANY:  snprintf(buf, n, "thread_alloc(%ld x%ld)", op.a, op.b); break;
    case OP_DFREE:        snprintf(buf, n, "double_free(released#%ld)", op.a); break;
    case OP_OVER:         snprintf(buf, n, "overflow_then_free(#%ld)", op.a); break;
    case OP_LINK:         snprintf(buf, n, "forge_link(released#%ld,%ld)", op.a, op.b); break;
    default:              snprintf(buf, n, "op%d(%ld,%ld)", op.code, op.a, op.b); break;
  }
}

/* ---------------- harness state -------------------------------------------------------------- */
#define NHEAPS 3                       /* slot 0 = backing heap, 1..2 = created heaps */
static mi_heap_t* g_heaps[NHEAPS];
static int        g_default = 0;       /* slot of the current default heap */
static int        g_dirty = 0;         /* C04 discipline: fill a block with 0xFF before releasing it */
static int        g_obs_walk = 0, g_obs_owner = 0, g_obs_released = 0, g_obs_abandoned = 0;
static int        g_check_errors = 1;  /* secondary oracle: unexpected mi error callback */
static int        g_threads_used = 0;
#define NREL 6
static struct { uint8_t* p; size_t req, usable; int linked; int valid; mi_page_t* page; int popped; } g_rel[NREL]; static int g_nrel;   /* recently released blocks (fault targets) */
static mi_arena_id_t g_arena = 0; static uintptr_t g_arena_lo, g_arena_hi, g_map_lo, g_map_hi, g_given_lo, g_given_hi; static int g_arena_excl; static int g_heap_in_arena[NHEAPS];
static int        g_pending_links = 0;      /* forged links not yet reached by the allocator */
static int        g_links_popped = 0, g_efaults_seen = 0;   /* blocks with a forged link that were handed out again / corruption reports so far */
static int        g_faulted = 0;            /* debug builds: stop the branch after the first reported fault */
static int        g_pending[NHEAPS + 1];    /* heap slot has (possibly) pending cross-thread frees: C12 claims nothing about extra reports then */
#define PENDING(h) g_pending[(h) < 0 ? NHEAPS : (h)]

typedef struct profile_s {
  const char* name;
  long msizes[8];  int nm;             /* malloc sizes */
  long zsizes[8];  int nz;             /* zalloc sizes */
  long asizes[4][2]; int na;           /* aligned (size, alignment) */
  long zasizes[4][2]; int nza;         /* zero aligned */
  long fills[2];   int nf;
  long rsizes[6];  int nr;             /* realloc target sizes */
  long rzsizes[6]; int nrz;            /* rezalloc target sizes (monotone growth only) */
  int  collect0, collect1, heaps, hdestroy, setdef, walk, remote_free, thread_alloc, realloc_al, recalloc, expand, free_variants;
  long hsizes[3];  int nh;
  long ticks[2];   int nt;
  long callocs[3][2]; int nc;
  int  thread_aligned;                 /* a helper thread allocates two aligned blocks (asizes[0]) and terminates */
  int  arena;                          /* C15: managed-arena operations */
  int  faults;                         /* hardened builds: double free / overflow / forged link operations */
  int  haligned;                       /* heaps profile: heap_malloc_aligned(h1, 1000, 64 MiB) (own OS mapping placed by the kernel) */
  int  free_page;                      /* free_page_of(i) for the first live block of every distinct page (at most 6 pages) */
  int  fillcount, free_every;          /* blocks per fill (default 8); enable free_every(k,phase) ops */
  int  maxlive;                        /* allocation ops disabled above this many live blocks */
  int  free_window;                    /* free(i) enumerated for all i if nlive <= window, else first/last window/2 */
} profile_t;

#define KiB 1024L
#define MiB (1024L * 1024L)
static const profile_t profiles[] = {
  /* P1: page life-cycle: extend, full queue, retire, first page of a segment */
  { .name = "P1", .msizes = { 8 * KiB, 48 }, .nm = 2, .fills = { 8 * KiB }, .nf = 1, .collect0 = 1, .collect1 = 1, .maxlive = 20, .free_window = 6 },
  /* P2: spans: medium, large (single-block pages), huge segments, multi-arena-block huge */
  { .name = "P2", .msizes = { 64 * KiB, 100 * KiB, 1 * MiB, 17 * MiB, 40 * MiB }, .nm = 5, .collect1 = 1, .maxlive = 6, .free_window = 6 },
  /* P3: mixed small */
  { .name = "P3", .msizes = { 8, 16, 1024, 1025 }, .nm = 4, .collect0 = 1, .maxlive = 8, .free_window = 8 },
  /* P3r: realloc */
  { .name = "P3r", .msizes = { 24, 8 * KiB, 200 * KiB }, .nm = 3, .rsizes = { 1, 40, 8 * KiB + 1, 70 * KiB, 17 * MiB }, .nr = 5, .expand = 1, .maxlive = 4, .free_window = 4 },
  /* P4z: zero-initialising allocation and growth; dirty discipline is switched on with --dirty */
  { .name = "P4z", .zsizes = { 8, 48, 1024, 8 * KiB, 100 * KiB }, .nz = 5, .zasizes = { { 48, 32 }, { 8 * KiB, 4096 } }, .nza = 2,
    .msizes = { 48, 8 * KiB }, .nm = 2, .rzsizes = { 16, 56, 1100, 8 * KiB + 8, 64 * KiB + 1, 200 * KiB }, .nrz = 6, .recalloc = 1,
    .callocs = { { 3, 16 }, { 8, 1024 } }, .nc = 2, .collect1 = 1, .maxlive = 4, .free_window = 4 },
  /* P4zh: zero-initialising huge / over-aligned */
  { .name = "P4zh", .zsizes = { 100 * KiB, 17 * MiB }, .nz = 2, .zasizes = { { 1 * MiB, 64 * MiB }, { 100 * KiB, 64 * KiB } }, .nza = 2,
    .msizes = { 17 * MiB, 100 * KiB }, .nm = 2, .rzsizes = { 200 * KiB, 18 * MiB }, .nrz = 2, .collect1 = 1, .maxlive = 3, .free_window = 3 },
  /* P4h: first-class heaps */
  { .name = "P4h", .msizes = { 8 * KiB }, .nm = 1, .hsizes = { 8 * KiB, 48 }, .nh = 2, .heaps = 1, .hdestroy = 1, .setdef = 1, .collect1 = 1, .maxlive = 12, .free_window = 4 },
  /* P4d: a deleted heap's descriptor is reused: blocks of the descriptor's size class next to a heap whose full page survives mi_heap_delete */
  { .name = "P4d", .msizes = { sizeof(mi_heap_t) }, .nm = 1, .hsizes = { 8 * KiB }, .nh = 1, .heaps = 1, .maxlive = 14, .free_window = 14 },
  /* P5: aligned / interior pointers */
  { .name = "P5", .asizes = { { 48, 32 }, { 8 * KiB, 4096 }, { 100 * KiB, 64 * KiB }, { 1 * MiB, 64 * MiB } }, .na = 4, .msizes = { 48 }, .nm = 1,
    .realloc_al = 1, .rsizes = { 100, 9 * KiB }, .nr = 2, .free_variants = 1, .maxlive = 5, .free_window = 5 },
  /* P5m: over-allocated aligned blocks (interior pointers) in pages that move inside their queue (start state S7) or change
     owner (a helper thread allocates them and terminates) */
  { .name = "P5m", .asizes = { { 8292, 4096 } }, .na = 1, .realloc_al = 1, .rsizes = { 9 * KiB, 13000 }, .nr = 2, .expand = 1, .free_variants = 1, .collect1 = 1, .thread_aligned = 1, .maxlive = 48, .free_window = 4 },
  /* P6w: heap walk incl. remote frees and abandoned pages, 64-blocks-per-word boundary */
  { .name = "P6w", .msizes = { 1024, 512 }, .nm = 2, .fills = { 1024 }, .nf = 1, .walk = 1, .remote_free = 1, .collect0 = 1, .maxlive = 80, .free_window = 4 },
  /* P6x: 64 blocks of 1 KiB fill exactly one bitmap word of the walk; 512 B blocks (127 per page) a full word plus a partial one */
  { .name = "P6x", .msizes = { 1024 }, .nm = 1, .fills = { 1024, 512 }, .nf = 2, .fillcount = 64, .free_every = 1, .walk = 1, .collect0 = 1, .maxlive = 200, .free_window = 2 },
  /* P7t: threads: remote free + abandoned segments + reclaim */
  { .name = "P7t", .msizes = { 8 * KiB, 100 * KiB }, .nm = 2, .remote_free = 1, .thread_alloc = 1, .collect0 = 1, .collect1 = 1, .maxlive = 6, .free_window = 4 },
  /* P7m: blocks left behind by exited threads in arena segments (8 KiB) and in segments straight from the OS (40 MiB with a 32 MiB
     arena reserve: too large for an arena) at the same time */
  { .name = "P7m", .msizes = { 8 * KiB, 40 * MiB }, .nm = 2, .thread_alloc = 2, .collect1 = 1, .maxlive = 6, .free_window = 4 },
  /* P6a: arena-bound heaps and exclusive arenas (C15); start states Sa<shape> hand a guarded region to mi_manage_os_memory_ex */
  { .name = "P6a", .msizes = { 8 * KiB, 1 * MiB, 17 * MiB }, .nm = 3, .hsizes = { 8 * KiB, 1 * MiB, 17 * MiB }, .nh = 3, .arena = 1, .collect1 = 1, .maxlive = 8, .free_window = 4 },
  /* P6d: as P6a with one size, and the arena-bound heap can be made the thread's default heap (and back): frees then adopt
     abandoned segments (reclaim-on-free) into whatever heap is the default */
  { .name = "P6d", .msizes = { 8 * KiB }, .nm = 1, .hsizes = { 8 * KiB }, .nh = 1, .arena = 1, .setdef = 1, .collect1 = 1, .maxlive = 16, .free_window = 4 },
  /* P1q: page-queue transitions of a small class (direct-page table): from S12; whole pages are released in one operation */
  { .name = "P1q", .msizes = { 1024, 64 }, .nm = 2, .free_page = 1, .collect0 = 1, .maxlive = 400, .free_window = 2 },
  /* P2g: a block that needs exactly 64 arena blocks (one whole bitmap field of a 4 GiB arena: start state S9) next to 17 MiB blocks */
  { .name = "P2g", .msizes = { 2040 * MiB, 17 * MiB }, .nm = 2, .collect1 = 1, .maxlive = 3, .free_window = 3 },
  /* P8d (run with --dirty from S10: a segment filled with 1 MiB pages): a 100 MiB block is filled with 0xFF and released, then huge and
     1 MiB blocks need fresh segments on the arena blocks it occupied: a new segment's header must not inherit anything from them */
  { .name = "P8d", .msizes = { 100 * MiB, 17 * MiB, 1 * MiB }, .nm = 3, .maxlive = 48, .free_window = 2 },
  /* P4o: first-class heaps with over-aligned blocks (64 MiB alignment: a mapping of its own, placed by the kernel far above the arenas) */
  { .name = "P4o", .msizes = { 8 * KiB }, .nm = 1, .hsizes = { 8 * KiB }, .nh = 1, .heaps = 1, .hdestroy = 1, .setdef = 1, .haligned = 1, .collect1 = 1, .maxlive = 8, .free_window = 4 },
  /* P8t: from S14 (a segment filled exactly to its last slice): the last pages are released, a 1.5 MiB page is built on the coalesced span
     that ends at the segment's end, time passes, collects */
  { .name = "P8t", .msizes = { 1536 * KiB }, .nm = 1, .collect1 = 1, .ticks = { 1000 }, .nt = 1, .maxlive = 48, .free_window = 4 },
  /* P9s: hardened builds (C17): a full page of 8 blocks, frees, and the three fault operations at every position */
  { .name = "P9s", .msizes = { 8000, 100 }, .nm = 2, .fills = { 8000 }, .nf = 1, .faults = 1, .collect1 = 1, .maxlive = 12, .free_window = 4 },
  /* P9g: hardened builds: a small size class whose pages start behind a gap at the beginning of their slice; start state S8 leaves
     the page's free list empty, so the next allocation takes the most recently released block (and reads its link) */
  { .name = "P9g", .msizes = { 40 }, .nm = 1, .faults = 1, .collect1 = 1, .maxlive = 120, .free_window = 2 },
  /* P8h: huge blocks that span several arena blocks (40 MiB = 2, 100 MiB = 4): claims that re-use committed blocks together with
     never committed ones */
  { .name = "P8h", .msizes = { 40 * MiB, 100 * MiB }, .nm = 2, .collect1 = 1, .ticks = { 1000 }, .nt = 1, .maxlive = 2, .free_window = 2 },
  /* P8g: from S11: release the three 3 MiB pages, allocate 9 MiB over the coalesced span, purge */
  { .name = "P8g", .msizes = { 9 * MiB }, .nm = 1, .collect1 = 1, .maxlive = 5, .free_window = 4 },
  /* P8f: a full segment of 1 MiB pages (start state S10): release / re-use / purge at its far end */
  { .name = "P8f", .msizes = { 1 * MiB }, .nm = 1, .collect0 = 1, .collect1 = 1, .ticks = { 1000 }, .nt = 1, .maxlive = 40, .free_window = 4 },
  /* P8o: option sweep profile (C13): merged alphabet incl. clock ticks */
  { .name = "P8o", .msizes = { 8 * KiB, 64 * KiB, 1 * MiB, 17 * MiB }, .nm = 4, .zsizes = { 8 * KiB }, .nz = 1, .rsizes = { 100 * KiB }, .nr = 1,
    .collect0 = 1, .collect1 = 1, .ticks = { 1000 }, .nt = 1, .maxlive = 5, .free_window = 5 },
};
static const profile_t* g_prof = &profiles[0];

/* ---------------- helper threads (created and joined inside one op) -------------------------- */
typedef struct targ_s { int kind; void* p; size_t size; void* out[2]; } targ_t;
static void* helper_thread(void* a) {
  targ_t* t = (targ_t*)a;
  if (t->kind == 0) { mi_free(t->p); }
  else if (t->kind == 1) { t->out[0] = mi_malloc(t->size); t->out[1] = mi_malloc(t->size); }
  else if (t->kind == 2) { mi_heap_t* h = mi_heap_new_in_arena(g_arena); t->out[0] = (h ? mi_heap_malloc(h, t->size) : NULL); t->out[1] = (h ? mi_heap_malloc(h, t->size) : NULL); t->p = h; }
  else if (t->kind == 5) { mi_heap_t* h1 = mi_heap_new(); mi_heap_t* h2 = mi_heap_new(); if (h1 && h2) { void* x = mi_heap_malloc(h1, t->size); t->out[0] = mi_heap_malloc(h2, t->size); t->out[1] = mi_heap_malloc(h2, t->size); mi_free(x); mi_heap_delete(h1); } }
  else if (t->kind == 4) { size_t al = (size_t)(uintptr_t)t->p; t->out[0] = mi_malloc_aligned(t->size, al); t->out[1] = mi_malloc_aligned(t->size, al); }
  else { /* kind 3: many blocks from the default heap; first and last stay live */
    void* tmp[64]; int n = (int)(uintptr_t)t->p; if (n > 64) n = 64;
    for (int i = 0; i < n; i++) tmp[i] = mi_malloc(t->size);
    t->out[0] = tmp[0]; t->out[1] = tmp[n - 1];
    for (int i = 1; i < n - 1; i++) mi_free(tmp[i]);
  }
  return NULL;
}
static void run_helper(targ_t* t) {
  pthread_t th;
  g_threads_used++;
  if (pthread_create(&th, NULL, helper_thread, t) != 0) { vf_sh->infra_error = 1; perror("pthread_create"); return; }
  pthread_join(th, NULL);
}

/* ---------------- observers (run in a throw-away fork at every node) -------------------------- */
typedef struct walk_s { const void* blk[8192]; size_t sz[8192]; int n; size_t area_used, nareas; int stop_after; int calls; } walk_t;
static bool walk_cb(const mi_heap_t* heap, const mi_heap_area_t* area, void* block, size_t block_size, void* arg) {
  (void)heap;
  walk_t* w = (walk_t*)arg;
  w->calls++;
  if (w->stop_after > 0 && w->calls >= w->stop_after) return false;
  if (block == NULL) { w->area_used += area->used; w->nareas++; return true; }
  if (w->n < 8192) { w->blk[w->n] = block; w->sz[w->n] = block_size; w->n++; }
  return true;
}
/* heap walk oracle (C12): exactly the model's live blocks of heap slot h (+ heap descriptors in the backing heap) */
static walk_t g_walk;
static int check_walk_heap(int h) {
  walk_t* w = &g_walk; memset(w, 0, offsetof(walk_t, stop_after)); w->stop_after = 0; w->calls = 0;
  mi_heap_visit_blocks(g_heaps[h], true, &walk_cb, w);
  VF_INC(checks);
  int expected = 0;
  for (int i = 0; i < vf_nlive; i++) if (vf_live[i].heap == h) {
    expected++;
    const vf_blk_t* b = &vf_live[i]; int hits = 0;
    for (int k = 0; k < w->n; k++) {
      const uint8_t* s = (const uint8_t*)w->blk[k];
      if (s <= b->p && b->p + b->usable <= s + w->sz[k]) hits++;
    }
    if (hits != 1) { vf_violation("walk-missing", "heap h%d: live block #%d %p (req %zu) is reported %d times by mi_heap_visit_blocks", h, i, b->p, b->req, hits); return -1; }
  }
  int descriptors = 0;
  for (int k = 0; k < w->n; k++) {
    const uint8_t* s = (const uint8_t*)w->blk[k]; int owners = 0;
    int foreign = 0;
    for (int i = 0; i < vf_nlive; i++) if (s <= vf_live[i].p && vf_live[i].p < s + (w->sz[k] ? w->sz[k] : 1)) { if (vf_live[i].heap == h) owners++; else if (vf_live[i].heap < 0) foreign++; }
    if (owners == 0 && foreign == 1) { owners = 1; descriptors++; }   /* block of an exited thread whose page this heap adopted */
    if (owners == 0 && PENDING(h)) { owners = 1; descriptors++; }      /* pending cross-thread free: outside the claim */
    if (owners == 0 && h == 0) { for (int j = 1; j < NHEAPS; j++) if (g_heaps[j] != NULL && (const void*)g_heaps[j] == (const void*)s) { owners = 1; descriptors++; } }
    if (owners != 1) { vf_violation("walk-extra", "heap h%d: mi_heap_visit_blocks reports range [%p,+%zu) that holds %d live blocks", h, (void*)s, w->sz[k], owners); return -1; }
  }
  if (!PENDING(h) && (size_t)w->n != w->area_used) { vf_violation("walk-used", "heap h%d: areas report used=%zu but %d blocks were visited", h, w->area_used, w->n); return -1; }
  if (w->n != expected + descriptors) { vf_violation("walk-count", "heap h%d: %d blocks visited, model has %d (+%d heap descriptors)", h, w->n, expected, descriptors); return -1; }
  if (w->n > 1) VF_INC(nontrivial);
  /* early stop: returning false from the k-th call ends the walk at once */
  int total_calls = w->calls;
  for (int k = 1; k <= total_calls && k <= 6; k++) {
    walk_t* w2 = &g_walk; memset(w2, 0, offsetof(walk_t, stop_after)); w2->stop_after = k; w2->calls = 0;
    bool r = mi_heap_visit_blocks(g_heaps[h], true, &walk_cb, w2);
    if (r || w2->calls != k) { vf_violation("walk-stop", "heap h%d: visitor returned false at call %d but walk made %d calls and returned %d", h, k, w2->calls, (int)r); return -1; }
  }
  return 0;
}
/* ownership oracle (C10) */
static int check_owner(void) {
  for (int i = 0; i < vf_nlive; i++) {
    const vf_blk_t* b = &vf_live[i];
    if (b->heap < 0) continue;   /* block owned by an exited helper thread / unknown heap */
    for (int h = 0; h < NHEAPS; h++) {
      if (g_heaps[h] == NULL) continue;
      bool c = mi_heap_contains_block(g_heaps[h], b->p);
      VF_INC(checks);
      if (c != (h == b->heap)) { vf_violation("heap-contains", "mi_heap_contains_block(h%d, #%d %p) = %d but the model says the block lives in h%d", h, i, b->p, (int)c, b->heap); return -1; }
      bool o = mi_heap_check_owned(g_heaps[h], b->p);
      if (h == b->heap && !o) { vf_violation("heap-owned", "mi_heap_check_owned(h%d, #%d %p) = false for the owning heap", h, i, b->p); return -1; }
      if (h != b->heap && o) { vf_violation("heap-owned-other", "mi_heap_check_owned(h%d, #%d %p) = true but the block lives in h%d", h, i, b->p, b->heap); return -1; }
    }
  }
  return 0;
}
/* abandoned walk oracle (C12): blocks left behind by exited threads are reported exactly once, either by
 * mi_abandoned_visit_blocks or -- if their page was adopted meanwhile -- by the walk of the adopting heap */
static walk_t g_walk_ab;
static int check_abandoned(void) {
  walk_t* w = &g_walk_ab; memset(w, 0, offsetof(walk_t, stop_after)); w->stop_after = 0; w->calls = 0;
  bool ok = mi_abandoned_visit_blocks(mi_subproc_main(), -1, true, &walk_cb, w);
  { /* the bookkeeping the walk and the adoption code steer by: the sub-process counter equals the abandoned segments that exist
       (bits in the arenas' abandoned bitmaps + entries of the list of abandoned segments that came straight from the OS) */
    size_t bits = 0; const size_t na = mi_atomic_load_relaxed(&mi_arena_count);
    for (size_t a = 0; a < na; a++) { mi_arena_t* ar = mi_atomic_load_ptr_relaxed(mi_arena_t, &mi_arenas[a]); if (ar == NULL || ar->blocks_abandoned == NULL) continue; for (size_t f = 0; f < ar->field_count; f++) bits += (size_t)__builtin_popcountl(mi_atomic_load_relaxed(&ar->blocks_abandoned[f])); }
    size_t oslist = 0; for (mi_segment_t* sg = mi_subproc_default.abandoned_os_list; sg != NULL && oslist < 100000; sg = sg->abandoned_os_next) oslist++;
    size_t cnt = mi_atomic_load_relaxed(&mi_subproc_default.abandoned_count), oscnt = mi_atomic_load_relaxed(&mi_subproc_default.abandoned_os_list_count);
    VF_INC(checks);
    if (cnt != bits + oslist || oscnt != oslist) { vf_violation("abandoned-count-mismatch", "the sub-process counts %zu abandoned segments (%zu of them in the OS list), but %zu are marked in the arenas and %zu are linked in the OS list", cnt, oscnt, bits, oslist); return -1; }
  }
  if (vf_verbose) fprintf(stderr, "[abandoned walk] ok=%d blocks=%d abandoned_count=%zu os_list_count=%zu\n", (int)ok, w->n, mi_atomic_load_relaxed(&mi_subproc_default.abandoned_count), mi_atomic_load_relaxed(&mi_subproc_default.abandoned_os_list_count));
  VF_INC(checks);
  if (!ok) { vf_violation("abandoned-visit-false", "mi_abandoned_visit_blocks returned false although the visitor never did"); return -1; }
  walk_t* h = &g_walk; memset(h, 0, offsetof(walk_t, stop_after)); h->stop_after = 0; h->calls = 0;
  for (int k = 0; k < NHEAPS; k++) if (g_heaps[k] != NULL) mi_heap_visit_blocks(g_heaps[k], true, &walk_cb, h);
  int nforeign = 0;
  for (int i = 0; i < vf_nlive; i++) if (vf_live[i].heap < 0) {
    const vf_blk_t* b = &vf_live[i]; int hits = 0; nforeign++;
    for (int k = 0; k < w->n; k++) { const uint8_t* s = (const uint8_t*)w->blk[k]; if (s <= b->p && b->p + b->usable <= s + w->sz[k]) hits++; }
    for (int k = 0; k < h->n; k++) { const uint8_t* s = (const uint8_t*)h->blk[k]; if (s <= b->p && b->p + b->usable <= s + h->sz[k]) hits++; }
    if (hits != 1) { vf_violation("abandoned-walk-missing", "block #%d %p (req %zu) left behind by an exited thread is reported %d times (abandoned visit: %d blocks, heap walks: %d blocks)", i, b->p, b->req, hits, w->n, h->n); return -1; }
  }
  for (int k = 0; k < w->n; k++) {
    const uint8_t* s = (const uint8_t*)w->blk[k]; int owners = 0;
    for (int i = 0; i < vf_nlive; i++) if (vf_live[i].heap < 0 && s <= vf_live[i].p && vf_live[i].p < s + (w->sz[k] ? w->sz[k] : 1)) owners++;
    if (owners != 1 && !PENDING(-1)) { vf_violation("abandoned-walk-extra", "mi_abandoned_visit_blocks reports range [%p,+%zu) that holds %d live blocks of exited threads", (void*)s, w->sz[k], owners); return -1; }
  }
  if (w->n > 0) VF_INC(nontrivial);
  if (w->n > 0) VF_INC(counters[4]);
  /* early stop; and a stopped walk must not change what the next complete walk reports */
  if (w->calls >= 1) {
    int n1 = w->n; uint64_t h1 = 0; for (int k = 0; k < w->n; k++) h1 += vf_mix((uintptr_t)w->blk[k] ^ (w->sz[k] << 48));
    for (int stop = 1; stop <= 4 && stop <= w->calls; stop++) {     /* (call 1 is an area callback: block == NULL; call 4 is the second area's when the first holds two blocks) */
      walk_t* w2 = &g_walk_ab; memset(w2, 0, offsetof(walk_t, stop_after)); w2->stop_after = stop; w2->calls = 0;
      bool r = mi_abandoned_visit_blocks(mi_subproc_main(), -1, true, &walk_cb, w2);
      if (r || w2->calls != stop) { vf_violation("abandoned-walk-stop", "visitor returned false at call %d but the walk made %d calls and returned %d", stop, w2->calls, (int)r); return -1; }
      walk_t* w3 = &g_walk_ab; memset(w3, 0, offsetof(walk_t, stop_after)); w3->stop_after = 0; w3->calls = 0;
      bool r3 = mi_abandoned_visit_blocks(mi_subproc_main(), -1, true, &walk_cb, w3);
      uint64_t h3 = 0; for (int k = 0; k < w3->n; k++) h3 += vf_mix((uintptr_t)w3->blk[k] ^ (w3->sz[k] << 48));
      VF_INC(checks);
      if (!r3 || w3->n != n1 || h3 != h1) { vf_violation("abandoned-walk-after-stop", "a complete walk reported %d blocks; after a walk that the visitor stopped at call %d the next complete walk reports %d blocks (returned %d)", n1, stop, w3->n, (int)r3); return -1; }
    }
  }
  return 0;
}
static int run_observers(void) {
  if (!g_obs_walk && !g_obs_owner && !g_obs_abandoned) return 0;
  pid_t pid = fork();
  if (pid < 0) { vf_sh->infra_error = 1; return -1; }
  if (pid == 0) {
    int r = 0;
    alarm(60);                                   /* (timers are not inherited: a walk that never ends must not outlive the check) */
    prctl(PR_SET_PDEATHSIG, SIGKILL);
    if (g_obs_owner) r = check_owner();
    if (r == 0 && g_obs_walk) for (int h = 0; h < NHEAPS && r == 0; h++) if (g_heaps[h] != NULL) r = check_walk_heap(h);
    if (r == 0 && g_obs_abandoned) r = check_abandoned();
    _exit(r == 0 ? 0 : 3);
  }
  int st = 0; waitpid(pid, &st, 0);
  if (WIFEXITED(st) && WEXITSTATUS(st) == 0) return 0;
  if (WIFEXITED(st) && WEXITSTATUS(st) == 3) return -1;   /* violation already recorded */
  if (WIFSIGNALED(st) && WTERMSIG(st) == SIGALRM) { vf_violation("hang", "the heap walk / ownership queries of this state did not finish within 60 s"); return -1; }
  vf_violation("observer-crash", "heap walk / ownership observer died (status 0x%x)", st);
  return -1;
}

/* a released block stays a fault target only while its page has continuously held at least one other live block (so the
   page itself was never released: "a second free after the whole area was released" is outside the claim) */
static int rel_page_live(mi_page_t* page, const uint8_t* self) {
  for (int i = 0; i < vf_nlive; i++) if (vf_live[i].p != self && vf_live[i].req <= MI_MEDIUM_OBJ_SIZE_MAX && _mi_ptr_page(vf_live[i].p) == page) return 1;
  return 0;
}
static void rel_record(const vf_blk_t* b) {
  if (!g_prof->faults) return;
  if (g_nrel == NREL) { memmove(&g_rel[0], &g_rel[1], sizeof(g_rel[0]) * (NREL - 1)); g_nrel--; }
  g_rel[g_nrel].p = b->p; g_rel[g_nrel].req = b->req; g_rel[g_nrel].usable = b->usable; g_rel[g_nrel].linked = 0; g_rel[g_nrel].popped = 0;
  g_rel[g_nrel].page = _mi_ptr_page(b->p);
  g_rel[g_nrel].valid = (b->req <= MI_MEDIUM_OBJ_SIZE_MAX && rel_page_live(g_rel[g_nrel].page, b->p));
  g_nrel++;
}
static void rel_revalidate(void) { for (int k = 0; k < g_nrel; k++) if (g_rel[k].valid && !rel_page_live(g_rel[k].page, g_rel[k].p)) g_rel[k].valid = 0; }
#if MI_DEBUG
/* debug builds: once a forged link has been reported, internal assertions may follow: the branch ends with the report */
static void dbg_error_hook(int err) { if (g_pending_links > 0 && err == EFAULT) { VF_INC(counters[7]); vf_exit_branch(); } }
#endif

/* ---------------- C13 monitor: purge / decommit / unmap never touch a live block ------------------- */
static int g_transit = -1;      /* model index of a block that is legitimately being released by the running call */
static void purge_monitor(int kind, int arg, uintptr_t addr, size_t len) {
  VF_INC(counters[5]);
  for (int i = 0; i < vf_nlive; i++) {
    if (i == g_transit) continue;
    const vf_blk_t* b = &vf_live[i];
    uintptr_t lo = (uintptr_t)b->p, hi = lo + (b->usable ? b->usable : 1);
    if (lo < addr + len && addr < hi) {
      vf_violation("purge-hits-live", "%s(%p, %zu, %d) overlaps live block #%d [%p,+%zu)", vf_os_kind_name(kind), (void*)addr, len, arg, i, b->p, b->usable);
      return;
    }
  }
}

/* ---------------- C15 oracle -------------------------------------------------------------------------------- */
static int arena_free_blocks(void) {
  mi_arena_t* a = mi_arena_from_index(mi_arena_id_index(g_arena)); int n = 0;
  for (size_t b = 0; b < a->block_count; b++) if (!((mi_atomic_load_relaxed(&a->blocks_inuse[b / MI_BITMAP_FIELD_BITS]) >> (b % MI_BITMAP_FIELD_BITS)) & 1)) n++;
  return n;
}
static int check_arena_node(void) {
  if (!g_arena) return 0;
  VF_INC(checks);
  for (int i = 0; i < vf_nlive; i++) {
    const vf_blk_t* b = &vf_live[i];
    int inside = ((uintptr_t)b->p >= g_arena_lo && (uintptr_t)b->p + b->usable <= g_arena_hi);
    int partly = ((uintptr_t)b->p < g_arena_hi && (uintptr_t)b->p + b->usable > g_arena_lo);
    int bound = (b->heap == -2) || (b->heap > 0 && g_heap_in_arena[b->heap]);
    if (bound && !inside) { vf_violation("arena-heap-outside", "block #%d %p (req %zu) of a heap bound to the arena lies outside the arena [%p,%p)", i, b->p, b->req, (void*)g_arena_lo, (void*)g_arena_hi); return -1; }
    if (!bound && g_arena_excl && partly) { vf_violation("exclusive-arena-leak", "block #%d %p (req %zu) of a heap that is NOT bound to the exclusive arena lies inside it [%p,%p)", i, b->p, b->req, (void*)g_arena_lo, (void*)g_arena_hi); return -1; }
    if (partly) VF_INC(counters[8]);
  }
  /* memory handed to mi_manage_os_memory_ex is only used within the bounds given: canaries around it, no OS call outside */
  for (uintptr_t a = g_map_lo; a < g_map_hi; a += 4096) {
    if (a >= g_given_lo && a < g_given_hi) { a = g_given_hi - 4096; continue; }    /* the range that was handed over */
    if (*(volatile uint64_t*)a != (0xC0FFEE0000000000ULL ^ a)) { vf_violation("outside-given-bounds", "memory at %p outside the range given to mi_manage_os_memory_ex [%p,%p) was written", (void*)a, (void*)g_given_lo, (void*)g_given_hi); return -1; }
  }
  if (vf_os.untracked_touch > 0) { vf_violation("outside-given-bounds", "%ld OS calls touched memory outside the managed range (first at %p)", vf_os.untracked_touch, (void*)vf_os.untracked_addr); return -1; }
  return 0;
}

/* ---------------- node oracle ------------------------------------------------------------------ */
static int vf_check_node(void) {
  if (vf_model_check_all("node") != 0) return -1;
  if (g_prof->faults) rel_revalidate();
  if (check_arena_node() != 0) return -1;
  if (g_pending_links > 0 && vf_err_count > 0 && vf_err_last == EFAULT) {
    /* the allocator reached a forged link and reported it instead of following it */
    VF_INC(counters[7]); g_pending_links -= 1; g_efaults_seen += 1; vf_err_count = 0;
#if MI_DEBUG
    g_faulted = 1;
#endif
  }
  if (g_prof->faults) {
    /* a block whose link was forged is handed out again: the allocator read that link when it took the block off its list, so
       by now it must have reported it (once per forged link) */
    for (int k = 0; k < g_nrel; k++) if (g_rel[k].linked && !g_rel[k].popped) for (int i = 0; i < vf_nlive; i++) if (vf_live[i].p == g_rel[k].p) { g_rel[k].popped = 1; g_links_popped++; break; }
    VF_INC(checks);
    if (g_links_popped > g_efaults_seen) { vf_violation("forged-link-followed", "%d block(s) whose free-list link was overwritten have been handed out again, but only %d corruption report(s) (EFAULT) were raised: a forged link was read without being reported", g_links_popped, g_efaults_seen); return -1; }
  }
  if (g_check_errors && vf_err_count > 0) { vf_violation("error-callback", "mimalloc reported error %d although the history is legal", vf_err_last); return -1; }
  if (g_prof->faults) {
    /* no address outside the heap's areas is ever handed out */
    for (int i = 0; i < vf_nlive; i++) if (!mi_is_in_heap_region(vf_live[i].p)) { vf_violation("outside-heap", "block #%d %p lies outside the heap's areas", i, vf_live[i].p); return -1; }
  }
  return run_observers();
}

/* ---------------- release helper: the common part of free/realloc ------------------------------ */
static void dirty_block(const vf_blk_t* b) { if (g_dirty) memset(b->p, 0xFF, b->usable); }

static int pages_of_default_heap(void) { return (int)g_heaps[0]->page_count; }

/* ---------------- apply ------------------------------------------------------------------------ */
static int vf_apply(vf_op_t op) {
  switch (op.code) {
    case OP_MALLOC: {
      void* p = mi_malloc((size_t)op.a);
      return vf_model_alloc(p, (size_t)op.a, 0, 0, g_default, 0, "mi_malloc") < 0;
    }
    case OP_ZALLOC: {
      void* p = mi_zalloc((size_t)op.a);
      return vf_model_alloc(p, (size_t)op.a, 0, 0, g_default, 1, "mi_zalloc") < 0;
    }
    case OP_CALLOC: {
      void* p = mi_calloc((size_t)op.a, (size_t)op.b);
      return vf_model_alloc(p, (size_t)(op.a * op.b), 0, 0, g_default, 1, "mi_calloc") < 0;
    }
    case OP_ALIGNED: {
      void* p = mi_malloc_aligned((size_t)op.a, (size_t)op.b);
      return vf_model_alloc(p, (size_t)op.a, (size_t)op.b, 0, g_default, 0, "mi_malloc_aligned") < 0;
    }
    case OP_ZALIGNED: {
      void* p = mi_zalloc_aligned((size_t)op.a, (size_t)op.b);
      return vf_model_alloc(p, (size_t)op.a, (size_t)op.b, 0, g_default, 1, "mi_zalloc_aligned") < 0;
    }
    case OP_FILL: {
      for (int k = 0; k < (g_prof->fillcount ? g_prof->fillcount : 8); k++) {
        void* p = mi_malloc((size_t)op.a);
        if (vf_model_alloc(p, (size_t)op.a, 0, 0, g_default, 0, "mi_malloc[fill]") < 0) return 1;
      }
      return 0;
    }
    case OP_FREE: case OP_FREE_SIZE: case OP_REMOTE_FREE: {
      int i = (int)op.a; if (i < 0 || i >= vf_nlive) return 0;
      if (vf_model_check_one(i, "before free") != 0) return 1;
      vf_blk_t b = vf_live[i];
      dirty_block(&b);
      vf_model_remove_ordered(i);
      rel_record(&b); rel_revalidate();
      if (op.code == OP_REMOTE_FREE) { targ_t t = { 0, b.p, 0, { 0, 0 } }; run_helper(&t); PENDING(b.heap) = 1; if (b.heap < 0) for (int h = 0; h < NHEAPS; h++) g_pending[h] = 1; }
      else if (op.code == OP_FREE_SIZE) {
        if (b.align) mi_free_size_aligned(b.p, b.req, b.align); else mi_free_size(b.p, b.req);
      }
      else if (b.align && (i & 1)) mi_free_aligned(b.p, b.align);
      else mi_free(b.p);
      return 0;
    }
    case OP_HFILL: {
      int h = (int)op.a; if (g_heaps[h] == NULL) return 0;
      for (int k = 0; k < 9; k++) { void* p = mi_heap_malloc(g_heaps[h], (size_t)op.b); if (vf_model_alloc(p, (size_t)op.b, 0, 0, h, 0, "mi_heap_malloc[fill]") < 0) return 1; }
      return 0;
    }
    case OP_AHEAP_NEW: {
      if (g_heaps[1] != NULL || !g_arena) return 0;
      g_heaps[1] = mi_heap_new_in_arena(g_arena);
      if (g_heaps[1] == NULL) { vf_violation("null-result", "mi_heap_new_in_arena returned NULL"); return 1; }
      g_heap_in_arena[1] = 1;
      return 0;
    }
    case OP_THREAD_ARENA: {
      targ_t t = { 2, NULL, (size_t)op.a, { 0, 0 } };
      run_helper(&t);
      if (t.p == NULL) { vf_violation("null-result", "mi_heap_new_in_arena returned NULL in the helper thread"); return 1; }
      for (int k = 0; k < 2; k++) {
        if (t.out[k] == NULL) { if (arena_free_blocks() < 1) { vf_err_count = 0; VF_INC(counters[9]); continue; } vf_violation("null-result", "arena-bound heap returned NULL although the arena has %d free blocks", arena_free_blocks()); return 1; }
        if (vf_model_alloc(t.out[k], (size_t)op.a, 0, 0, -2, 0, "mi_heap_malloc[arena heap, thread]") < 0) return 1;
      }
      return 0;
    }
    case OP_THREAD_MANY: {
      targ_t t = { 3, (void*)(uintptr_t)op.b, (size_t)op.a, { 0, 0 } };
      run_helper(&t);
      for (int k = 0; k < 2; k++) if (vf_model_alloc(t.out[k], (size_t)op.a, 0, 0, -1, 0, "mi_malloc[thread]") < 0) return 1;
      return 0;
    }
    case OP_DFREE: {
      int k = (int)op.a; if (k < 0 || k >= g_nrel || !g_rel[k].valid) return 0;     /* not (or no longer) a target: see vf_list_ops */
      uint64_t fp0 = vf_fingerprint();
      vf_err_count = 0;
      mi_free(g_rel[k].p);                     /* the second free of a block that is still free */
      VF_INC(checks); VF_INC(nontrivial);
      if (vf_err_count != 1 || vf_err_last != EAGAIN) { vf_violation("double-free-unreported", "second free of %p (size %zu; its page still holds a live block) raised %d error reports (last code %d), expected exactly one EAGAIN", g_rel[k].p, g_rel[k].req, vf_err_count, vf_err_last); return 1; }
      vf_err_count = 0;
      if (vf_fingerprint() != fp0) { vf_violation("double-free-not-ignored", "the reported second free of %p still changed the allocator state", g_rel[k].p); return 1; }
#if MI_DEBUG
      g_faulted = 1;
#endif
      return 0;
    }
    case OP_OVER: {
      int i = (int)op.a; if (i < 0 || i >= vf_nlive) return 0;
      if (vf_model_check_one(i, "before overflow") != 0) return 1;
      vf_blk_t b = vf_live[i];
      b.p[b.req] = 0x41;                        /* one foreign byte just past the requested size (padding area) */
      vf_model_remove_ordered(i);
      vf_err_count = 0;
      mi_free(b.p);
      VF_INC(checks); VF_INC(nontrivial);
      if (vf_err_count < 1 || vf_err_last != EFAULT) { vf_violation("overflow-unreported", "a byte written just past the requested size (%zu) of %p was not reported when the block was freed (%d reports, last code %d), expected EFAULT", b.req, b.p, vf_err_count, vf_err_last); return 1; }
      vf_err_count = 0;
      rel_record(&b); rel_revalidate();
#if MI_DEBUG
      g_faulted = 1;
#endif
      return 0;
    }
    case OP_LINK: {
      int k = (int)op.a; if (k < 0 || k >= g_nrel || g_rel[k].linked) return 0;
      mi_page_t* page = _mi_ptr_page(g_rel[k].p);
      /* forged target: b=0 an address in another segment-sized region, b=1 the address of a live block of another page,
         b=2 / b=3 addresses of the same segment outside the page's block area (see below) */
      void* target = (op.b == 0 ? (void*)((uintptr_t)g_rel[k].p + 3 * MI_SEGMENT_SIZE + 64) : NULL);
      if (op.b == 1) { for (int i = 0; i < vf_nlive; i++) if (_mi_ptr_page(vf_live[i].p) != page) { target = vf_live[i].p; break; } if (!target) return 0; }
      if (op.b == 2) {   /* the gap between the start of the page's first slice and the start of its block area */
        uint8_t* ps = mi_page_start(page); uint8_t* ss = (uint8_t*)((uintptr_t)ps & ~(uintptr_t)(MI_SEGMENT_SLICE_SIZE - 1));
        if (ps - ss < 32) return 0;
        target = ss + 16;
      }
      if (op.b == 3) {   /* an address of the same segment, 128 KiB behind the block (another page or free slices) */
        target = (void*)((uintptr_t)g_rel[k].p + 2 * MI_SEGMENT_SLICE_SIZE);
        /* (slice arithmetic only: the allocator's own lookup functions assert on addresses that belong to no page) */
        uintptr_t pa = (uintptr_t)mi_page_start(page) & ~(uintptr_t)(MI_SEGMENT_SLICE_SIZE - 1), pe = pa + (uintptr_t)page->slice_count * MI_SEGMENT_SLICE_SIZE;
        if (_mi_ptr_segment(target) != _mi_ptr_segment(g_rel[k].p) || ((uintptr_t)target >= pa && (uintptr_t)target < pe)) return 0;
      }
#if (MI_ENCODE_FREELIST)
      ((mi_block_t*)g_rel[k].p)->next = mi_ptr_encode(page, target, page->keys);
#else
      return 0;
#endif
      g_rel[k].linked = 1; g_pending_links++;
      /* blocks of this page that were released earlier sit behind the forged link in the (LIFO) free lists: when the allocator
         reaches the link it reports it and cuts the list there, so they are on no list any more and a second free of one of
         them cannot be recognised by walking the lists (the mechanism the claim names): no longer double-free targets */
      for (int j = 0; j < k; j++) if (g_rel[j].page == page) g_rel[j].valid = 0;
      VF_INC(nontrivial);
      return 0;
    }
    case OP_FREE_PAGE: {
      int i0 = (int)op.a; if (i0 < 0 || i0 >= vf_nlive) return 0;
      const mi_page_t* pg = _mi_ptr_page(vf_live[i0].p);
      for (int i = vf_nlive - 1; i >= 0; i--) if (_mi_ptr_page(vf_live[i].p) == pg) {
        if (vf_model_check_one(i, "before free") != 0) return 1;
        vf_blk_t b = vf_live[i]; dirty_block(&b); vf_model_remove_ordered(i); mi_free(b.p);
      }
      return 0;
    }
    case OP_FREE_EVERY: {
      for (int i = vf_nlive - 1; i >= 0; i--) if ((i % (int)op.a) == (int)op.b) {
        if (vf_model_check_one(i, "before free") != 0) return 1;
        vf_blk_t b = vf_live[i]; dirty_block(&b); vf_model_remove_ordered(i); mi_free(b.p);
      }
      return 0;
    }
    case OP_REALLOC: case OP_REZALLOC: case OP_REALLOC_AL: case OP_RECALLOC: {
      int i = (int)op.a; if (i < 0 || i >= vf_nlive) return 0;
      if (vf_model_check_one(i, "before realloc") != 0) return 1;
      vf_blk_t b = vf_live[i];
      size_t n = (size_t)op.b;
      size_t al = (b.align ? b.align : 32);
      void* q;
      const char* what;
      g_transit = i;
      if (op.code == OP_REALLOC)        { q = mi_realloc(b.p, n); what = "mi_realloc"; }
      else if (op.code == OP_REZALLOC)  { q = (b.align ? mi_rezalloc_aligned(b.p, n, b.align) : mi_rezalloc(b.p, n)); what = "mi_rezalloc"; }
      else if (op.code == OP_RECALLOC)  { q = (b.align ? mi_recalloc_aligned(b.p, 1, n, b.align) : mi_recalloc(b.p, 1, n)); what = "mi_recalloc"; }
      else                              { q = mi_realloc_aligned(b.p, n, al); what = "mi_realloc_aligned"; }
      g_transit = -1;
      VF_INC(checks);
      if (q == NULL) { vf_violation("null-result", "%s(#%d, %zu) returned NULL", what, i, n); return 1; }
      size_t keep = (b.req < n ? b.req : n);
      if (keep > b.wlen) keep = b.wlen;
      long bad = vf_pat_check_lim((uint8_t*)q, b.wlen, b.seed, keep);
      if (bad >= 0) { vf_violation("realloc-contents", "%s(#%d %p req %zu -> %zu) = %p: byte %ld of the preserved prefix differs", what, i, b.p, b.req, n, q, bad); return 1; }
      int zero_tracked = b.zero_tracked && (op.code == OP_REZALLOC || op.code == OP_RECALLOC);
      if (zero_tracked && n > b.req) {
        const uint8_t* qq = (const uint8_t*)q;
        for (size_t k = b.req; k < n; k++) if (qq[k] != 0) { vf_violation("grow-not-zero", "%s(#%d req %zu -> %zu) = %p (%s): byte %zu is 0x%02x, expected 0", what, i, b.req, n, q, (q == (void*)b.p ? "in place" : "moved"), k, qq[k]); return 1; }
      }
      if (q != (void*)b.p) VF_INC(counters[0]); else VF_INC(counters[1]);
      vf_model_remove_ordered(i);
      /* insert the new block at the same index: registration appends, then rotate into place */
      size_t use_align = (op.code == OP_REALLOC_AL ? al : (op.code == OP_REALLOC ? 0 : b.align));
      int j = -1;
      {
        /* zero-tracked: do not re-verify zeros of the prefix (it holds the pattern); register manually */
        uint8_t* p = (uint8_t*)q;
        size_t usable = mi_usable_size(p);
        if (usable < n) { vf_violation("usable-too-small", "%s(%zu): mi_usable_size=%zu < requested", what, n, usable); return 1; }
        if (use_align && ((uintptr_t)p % use_align) != 0) { vf_violation("misaligned", "%s(#%d,%zu,align %zu) = %p lost its alignment", what, i, n, use_align, p); return 1; }
        for (int k = 0; k < vf_nlive; k++) { const vf_blk_t* o = &vf_live[k]; size_t os = o->usable ? o->usable : 1; if (p < o->p + os && o->p < p + (usable ? usable : 1)) { vf_violation("overlap", "%s(#%d,%zu) = [%p,+%zu) overlaps live block [%p,+%zu)", what, i, n, p, usable, o->p, o->usable); return 1; } }
        if (!vf_os_accessible(p, usable ? usable : 1)) { vf_violation("inaccessible", "%s(#%d,%zu) = [%p,+%zu) not in accessible memory", what, i, n, p, usable); return 1; }
        vf_blk_t nb = { p, n, usable, zero_tracked ? n : usable, use_align, 0, b.heap, zero_tracked, 0 };
        nb.seed = vf_mix((uintptr_t)p ^ (n * 0x100000001B3ULL));
        vf_pat_write(p, nb.wlen, nb.seed);
        memmove(&vf_live[i + 1], &vf_live[i], (size_t)(vf_nlive - i) * sizeof(vf_blk_t));
        vf_live[i] = nb; vf_nlive++; j = i;
      }
      (void)j;
      return 0;
    }
    case OP_EXPAND: {
      int i = (int)op.a; if (i < 0 || i >= vf_nlive) return 0;
      vf_blk_t* b = &vf_live[i];
      size_t n = b->usable + (size_t)op.b;
      void* q = mi_expand(b->p, n);
      VF_INC(checks);
      if (q != NULL && q != (void*)b->p) { vf_violation("expand-moved", "mi_expand(#%d %p, %zu) returned a different pointer %p", i, b->p, n, q); return 1; }
      if (op.b > 0 && q != NULL) { vf_violation("expand-beyond", "mi_expand(#%d, usable+%ld) succeeded", i, op.b); return 1; }
#if !MI_PADDING
      if (op.b == 0 && q == NULL) { vf_violation("expand-failed", "mi_expand(#%d %p, usable=%zu) failed", i, b->p, n); return 1; }
#endif
      return 0;
    }
    case OP_COLLECT: mi_collect(op.a != 0); g_pending[g_default] = 0; return 0;
    case OP_TICK: vf_os.clock_ms += op.a; return 0;
    case OP_HEAP_NEW: {
      for (int h = 1; h < NHEAPS; h++) if (g_heaps[h] == NULL) {
        g_heaps[h] = mi_heap_new();
        if (g_heaps[h] == NULL) { vf_violation("null-result", "mi_heap_new returned NULL"); return 1; }
        return 0;
      }
      return 0;
    }
    case OP_HMALLOC: {
      int h = (int)op.a; if (g_heaps[h] == NULL) return 0;
      void* p = mi_heap_malloc(g_heaps[h], (size_t)op.b);
      if (p == NULL && g_heap_in_arena[h]) {
        /* an arena-bound heap returns NULL when its arena cannot serve the request (it never falls back to the OS) */
        int need = (int)(((size_t)op.b + MI_SEGMENT_SIZE - 1) / MI_SEGMENT_SIZE) + ((size_t)op.b > MI_LARGE_OBJ_SIZE_MAX ? 0 : 0);
        VF_INC(counters[9]); vf_err_count = 0;
        if (arena_free_blocks() >= need + 1) { vf_violation("arena-heap-null", "arena-bound heap returned NULL for %ld bytes although the arena still has %d free blocks", op.b, arena_free_blocks()); return 1; }
        return 0;
      }
      return vf_model_alloc(p, (size_t)op.b, 0, 0, h, 0, "mi_heap_malloc") < 0;
    }
    case OP_HEAP_DELETE: {
      int h = (int)op.a; if (h <= 0 || g_heaps[h] == NULL) return 0;
      mi_heap_delete(g_heaps[h]);
      g_heaps[h] = NULL; g_pending[0] |= g_pending[h]; g_pending[h] = 0;
      /* blocks migrate to the backing heap -- unless the deleted heap was bound to an arena: those blocks stay what they
         are (memory of that arena, marker -2), and nothing else may be served from their pages by an unbound heap */
      for (int i = 0; i < vf_nlive; i++) if (vf_live[i].heap == h) vf_live[i].heap = (g_heap_in_arena[h] ? -2 : 0);
      g_heap_in_arena[h] = 0;
      if (g_default == h) g_default = 0;
      VF_INC(counters[2]);
      return 0;
    }
    case OP_HEAP_DESTROY: {
      int h = (int)op.a; if (h <= 0 || g_heaps[h] == NULL) return 0;
      for (int i = vf_nlive - 1; i >= 0; i--) if (vf_live[i].heap == h) { if (vf_model_check_one(i, "before heap_destroy") != 0) return 1; vf_model_remove_ordered(i); }
      mi_heap_destroy(g_heaps[h]);
      g_heaps[h] = NULL; g_pending[h] = 0;
      if (g_default == h) g_default = 0;
      VF_INC(counters[3]);
      return 0;
    }
    case OP_SET_DEFAULT: {
      int h = (int)op.a; if (g_heaps[h] == NULL) return 0;
      mi_heap_t* old = mi_heap_set_default(g_heaps[h]);
      VF_INC(checks);
      if (old != g_heaps[g_default]) { vf_violation("set-default-old", "mi_heap_set_default returned %p, expected previous default h%d %p", (void*)old, g_default, (void*)g_heaps[g_default]); return 1; }
      g_default = h;
      return 0;
    }
    case OP_WALK: {
      for (int h = 0; h < NHEAPS; h++) if (g_heaps[h] != NULL) if (check_walk_heap(h) != 0) return 1;
      return 0;
    }
    case OP_HALIGNED: {
      if (g_heaps[1] == NULL) return 0;
      void* p = mi_heap_malloc_aligned(g_heaps[1], (size_t)op.a, (size_t)op.b);
      if (p == NULL) { if (g_heap_in_arena[1]) { vf_err_count = 0; return 0; } vf_violation("null-result", "mi_heap_malloc_aligned(%ld,%ld) returned NULL", op.a, op.b); return 1; }   /* a bound heap may answer NULL when its arena cannot serve the request */
      return vf_model_alloc(p, (size_t)op.a, (size_t)op.b, 0, 1, 0, "mi_heap_malloc_aligned") < 0;
    }
    case OP_THREAD_ALIGNED: {
      targ_t t = { 4, (void*)(uintptr_t)op.b, (size_t)op.a, { 0, 0 } };
      run_helper(&t);
      for (int k = 0; k < 2; k++) if (vf_model_alloc(t.out[k], (size_t)op.a, (size_t)op.b, 0, -1, 0, "mi_malloc_aligned[thread]") < 0) return 1;
      return 0;
    }
    case OP_THREAD_HEAPS: {
      targ_t t = { 5, NULL, (size_t)op.a, { 0, 0 } };
      run_helper(&t);
      for (int k = 0; k < 2; k++) if (vf_model_alloc(t.out[k], (size_t)op.a, 0, 0, -1, 0, "mi_heap_malloc[thread, second heap]") < 0) return 1;
      return 0;
    }
    case OP_THREAD_ALLOC: {
      targ_t t = { 1, NULL, (size_t)op.a, { 0, 0 } };
      run_helper(&t);
      for (int k = 0; k < 2; k++) if (vf_model_alloc(t.out[k], (size_t)op.a, 0, 0, -1, 0, "mi_malloc[thread]") < 0) return 1;
      return 0;
    }
  }
  return 0;
}

/* ---------------- enabled operations, simplest first ------------------------------------------ */
static int vf_list_ops(vf_op_t* out, int max) {
  const profile_t* P = g_prof; int n = 0;
#define PUSH(c, x, y) do { if (n < max) { out[n].code = (c); out[n].a = (x); out[n].b = (y); n++; } } while (0)
  int can_alloc = (vf_nlive < P->maxlive);
  if (can_alloc) {
    for (int i = 0; i < P->nm; i++) PUSH(OP_MALLOC, P->msizes[i], 0);
    for (int i = 0; i < P->nz; i++) PUSH(OP_ZALLOC, P->zsizes[i], 0);
    for (int i = 0; i < P->nc; i++) PUSH(OP_CALLOC, P->callocs[i][0], P->callocs[i][1]);
    for (int i = 0; i < P->na; i++) PUSH(OP_ALIGNED, P->asizes[i][0], P->asizes[i][1]);
    for (int i = 0; i < P->nza; i++) PUSH(OP_ZALIGNED, P->zasizes[i][0], P->zasizes[i][1]);
    if (vf_nlive + (P->fillcount ? P->fillcount : 8) <= P->maxlive) for (int i = 0; i < P->nf; i++) PUSH(OP_FILL, P->fills[i], 0);
    if (P->thread_alloc) PUSH(OP_THREAD_ALLOC, P->msizes[0], 0);
    if (P->thread_alloc) PUSH(OP_THREAD_HEAPS, P->msizes[0], 0);
    if (P->thread_alloc == 2) for (int i = 1; i < P->nm; i++) PUSH(OP_THREAD_ALLOC, P->msizes[i], 0);   /* helper threads allocate every size of the profile */
  }
  /* which live indices are addressed */
  int idx[16], ni = 0;
  if (vf_nlive <= P->free_window) { for (int i = 0; i < vf_nlive; i++) idx[ni++] = i; }
  else { int h = P->free_window / 2; for (int i = 0; i < h; i++) idx[ni++] = i; for (int i = vf_nlive - (P->free_window - h); i < vf_nlive; i++) idx[ni++] = i; }
  for (int k = 0; k < ni; k++) PUSH(OP_FREE, idx[k], 0);
  if (P->free_variants) for (int k = 0; k < ni; k++) PUSH(OP_FREE_SIZE, idx[k], 0);
  if (P->free_page) { const mi_page_t* seen[6]; int ns = 0;
    for (int i = 0; i < vf_nlive && ns < 6; i++) { const mi_page_t* pg = _mi_ptr_page(vf_live[i].p); int dup = 0; for (int k = 0; k < ns; k++) if (seen[k] == pg) dup = 1; if (!dup) { seen[ns++] = pg; PUSH(OP_FREE_PAGE, i, 0); } } }
  if (P->free_every && vf_nlive >= 8) { PUSH(OP_FREE_EVERY, 2, 0); PUSH(OP_FREE_EVERY, 2, 1); PUSH(OP_FREE_EVERY, 3, 0); PUSH(OP_FREE_EVERY, 5, 2); }
  if (P->remote_free) for (int k = 0; k < ni; k++) PUSH(OP_REMOTE_FREE, idx[k], 0);
  for (int k = 0; k < ni; k++) {
    const vf_blk_t* b = &vf_live[idx[k]];
    if (!b->zero_tracked) {
      /* realloc_aligned only for blocks that were allocated with that alignment: for an unaligned block the
         allocator documents "use offset of previous allocation", so nothing about alignment is promised */
      for (int r = 0; r < P->nr; r++) if ((size_t)P->rsizes[r] != b->req) PUSH((P->realloc_al && b->align) ? OP_REALLOC_AL : OP_REALLOC, idx[k], P->rsizes[r]);
      if (P->expand) { PUSH(OP_EXPAND, idx[k], 0); PUSH(OP_EXPAND, idx[k], 1); }
    } else {
      /* monotone growth chains only */
      for (int r = 0; r < P->nrz; r++) if ((size_t)P->rzsizes[r] > b->req) { PUSH(OP_REZALLOC, idx[k], P->rzsizes[r]); if (P->recalloc) PUSH(OP_RECALLOC, idx[k], P->rzsizes[r]); break; }
      for (int r = P->nrz - 1; r >= 0; r--) if ((size_t)P->rzsizes[r] > b->req) { if (r > 0 && (size_t)P->rzsizes[r - 1] > b->req) PUSH(OP_REZALLOC, idx[k], P->rzsizes[r]); break; }
    }
  }
  if (P->arena) {
    if (g_heaps[1] == NULL) PUSH(OP_AHEAP_NEW, 0, 0);
    else if (can_alloc) for (int i = 0; i < P->nh; i++) PUSH(OP_HMALLOC, 1, P->hsizes[i]);
    if (g_heaps[1] != NULL) PUSH(OP_HEAP_DELETE, 1, 0);
    if (g_heaps[1] != NULL && can_alloc) { PUSH(OP_HALIGNED, 1 * MiB, 32 * MiB); PUSH(OP_HALIGNED, 64 * KiB, 4 * MiB); }
    if (can_alloc) { PUSH(OP_THREAD_ARENA, 8 * KiB, 0); PUSH(OP_THREAD_MANY, 8 * KiB, 12); }
    if (P->setdef && g_heaps[1] != NULL) PUSH(OP_SET_DEFAULT, g_default == 1 ? 0 : 1, 0);
  }
  if (P->faults) {
    if (g_faulted) return 0;      /* debug builds: internal assertions after a detected error are outside the claim: the branch ends here */
    for (int k = 0; k < g_nrel; k++) {
      /* the released block must not be live again, and for the double free its page must still hold another live block */
      int relive = 0;
      for (int i = 0; i < vf_nlive; i++) if (vf_live[i].p == g_rel[k].p) relive = 1;
      if (relive) g_rel[k].valid = 0;          /* handed out again: no longer a released block */
      if (!g_rel[k].valid) continue;
      if (!g_rel[k].linked && g_pending_links == 0) PUSH(OP_DFREE, k, 0);
      if (!g_rel[k].linked) { PUSH(OP_LINK, k, 0); PUSH(OP_LINK, k, 1); PUSH(OP_LINK, k, 2); PUSH(OP_LINK, k, 3); }
    }
    for (int k = 0; k < ni; k++) { const vf_blk_t* b = &vf_live[idx[k]]; if (b->req < mi_page_usable_block_size(_mi_ptr_page(b->p))) PUSH(OP_OVER, idx[k], 0); }
  }
  if (P->thread_aligned && can_alloc && vf_nlive + 2 <= P->maxlive) PUSH(OP_THREAD_ALIGNED, P->asizes[0][0], P->asizes[0][1]);
  if (P->collect0) PUSH(OP_COLLECT, 0, 0);
  if (P->collect1) PUSH(OP_COLLECT, 1, 0);
  for (int i = 0; i < P->nt; i++) PUSH(OP_TICK, P->ticks[i], 0);
  if (P->walk) PUSH(OP_WALK, 0, 0);
  if (P->heaps) {
    int have_free_slot = 0; for (int h = 1; h < NHEAPS; h++) if (g_heaps[h] == NULL) have_free_slot = 1;
    if (have_free_slot) PUSH(OP_HEAP_NEW, 0, 0);
    for (int h = 1; h < NHEAPS; h++) if (g_heaps[h] != NULL) {
      if (can_alloc) for (int i = 0; i < P->nh; i++) PUSH(OP_HMALLOC, h, P->hsizes[i]);
      if (vf_nlive + 9 <= P->maxlive && !P->arena) PUSH(OP_HFILL, h, P->hsizes[0]);
      if (P->haligned && h == 1 && can_alloc) PUSH(OP_HALIGNED, 1000, 64 * MiB);
      PUSH(OP_HEAP_DELETE, h, 0);
      if (P->hdestroy) PUSH(OP_HEAP_DESTROY, h, 0);
    }
    if (P->setdef) for (int h = 0; h < NHEAPS; h++) if (g_heaps[h] != NULL && h != g_default) PUSH(OP_SET_DEFAULT, h, 0);
  }
  return n;
}

/* ---------------- start states ------------------------------------------------------------------ */
static int do_op(int code, long a, long b) { vf_op_t op = { code, a, b }; return vf_apply(op); }
static int build_start(const char* s) {
  g_heaps[0] = mi_heap_get_backing();
  if (strcmp(s, "S0") == 0) return 0;
  if (strcmp(s, "S1") == 0) {
    /* churned: several pages per class, every other block freed, one full page, one retired page */
    long cls[3] = { 8 * KiB, 48, 1024 };
    for (int c = 0; c < 3; c++) for (int k = 0; k < 20; k++) if (do_op(OP_MALLOC, cls[c], 0)) return 1;
    for (int i = vf_nlive - 1; i >= 0; i -= 2) if (do_op(OP_FREE, i, 0)) return 1;
    if (do_op(OP_FILL, 8 * KiB, 0)) return 1;
    if (do_op(OP_MALLOC, 100 * KiB, 0)) return 1;
    /* keep only 3 blocks live so that the explored alphabet stays small: free all but three */
    while (vf_nlive > 3) if (do_op(OP_FREE, 1, 0)) return 1;
    return 0;
  }
  if (strcmp(s, "S2") == 0) {
    long cls[4] = { 8 * KiB, 48, 100 * KiB, 17 * MiB };
    for (int c = 0; c < 4; c++) for (int k = 0; k < 3; k++) if (do_op(OP_MALLOC, cls[c], 0)) return 1;
    for (int i = 0; i < vf_nlive; i++) memset(vf_live[i].p, 0xFF, vf_live[i].usable <= 4 * MiB ? vf_live[i].usable : 4 * MiB);
    /* the pattern was overwritten on purpose: rewrite seeds so that the free-time check passes */
    for (int i = 0; i < vf_nlive; i++) vf_pat_write(vf_live[i].p, vf_live[i].wlen, vf_live[i].seed);
    int sd = g_dirty; g_dirty = 1;
    while (vf_nlive > 0) if (do_op(OP_FREE, 0, 0)) return 1;
    g_dirty = sd;
    mi_collect(true);
    return 0;
  }
  if (strcmp(s, "S3") == 0) {
    /* a helper thread allocated and exited; one of its blocks is still live; then reclaim by allocation */
    if (do_op(OP_THREAD_ALLOC, 8 * KiB, 0)) return 1;
    if (do_op(OP_THREAD_ALLOC, 100 * KiB, 0)) return 1;
    if (do_op(OP_FREE, 0, 0)) return 1;
    if (do_op(OP_MALLOC, 8 * KiB, 0)) return 1;
    return 0;
  }
  if (strcmp(s, "S4") == 0) {
    if (do_op(OP_HEAP_NEW, 0, 0)) return 1;
    for (int k = 0; k < 3; k++) if (do_op(OP_HMALLOC, 1, 8 * KiB)) return 1;
    if (do_op(OP_HMALLOC, 1, 48)) return 1;
    if (do_op(OP_FREE, 1, 0)) return 1;
    if (do_op(OP_HEAP_DELETE, 1, 0)) return 1;
    return 0;
  }
  if (strcmp(s, "S5") == 0) {
    /* a 4 GiB (two bitmap fields) reserved arena whose first 62 blocks are taken: the next segments land on
       blocks 62, 63 and then in the second bitmap field */
    mi_arena_id_t aid = 0;
    if (mi_reserve_os_memory_ex((size_t)4096 * MiB, false, false, false, &aid) != 0) { fprintf(stderr, "cannot reserve arena\n"); return 2; }
    mi_memid_t memid;
    void* blk = _mi_arena_alloc((size_t)62 * MI_ARENA_BLOCK_SIZE, false, false, aid, &memid);
    if (blk == NULL) { fprintf(stderr, "cannot pre-claim arena blocks\n"); return 2; }
    return 0;
  }
  if (strcmp(s, "S8") == 0) {
    for (int k = 0; k < 100; k++) {
      if (do_op(OP_MALLOC, 40, 0)) return 1;
      if (_mi_ptr_page(vf_live[vf_nlive - 1].p)->free == NULL) break;
    }
    return 0;
  }
  if (strcmp(s, "S7") == 0) {
    /* two pages of the class of over-allocated aligned blocks: the older one (A) has been full, lost some blocks and sits at
       the end of its queue; the newer one (B) is first, its free list is empty but it can still be extended. The next
       allocation of this class makes A the candidate and moves it to the front of the queue. */
    const long sz = 8292, al = 4096;
    mi_page_t* A = NULL; mi_page_t* B = NULL; int firstA = vf_nlive, nA = 0;
    for (int k = 0; k < 64 && B == NULL; k++) {
      if (do_op(OP_ALIGNED, sz, al)) return 1;
      mi_page_t* pg = _mi_ptr_page(vf_live[vf_nlive - 1].p);
      if (A == NULL) A = pg;
      if (pg == A) nA++; else B = pg;
    }
    if (B == NULL || nA < 4) { fprintf(stderr, "S7: unexpected page geometry\n"); return 2; }
    /* release blocks of A that were returned as they are (not interior), so that interior-aligned blocks stay live in A */
    /* (more than an eighth of the page must be free, else the page counts as 'mostly used' and is not preferred) */
    int freed = 0, want = (int)A->reserved / 8 + 2;
    for (int i = firstA + nA - 1; i >= firstA && freed < want; i--) {
      mi_block_t* blk = _mi_page_ptr_unalign(A, vf_live[i].p);
      if ((void*)blk == (void*)vf_live[i].p || freed + (i - firstA) < want) { if (do_op(OP_FREE, i, 0)) return 1; freed++; }
    }
    for (int k = 0; k < 64 && B->free != NULL; k++) if (do_op(OP_ALIGNED, sz, al)) return 1;
    if (vf_verbose) fprintf(stderr, "S7: A=%p used=%d cap=%d res=%d has_aligned=%d in_full=%d | B=%p used=%d cap=%d res=%d free=%p | bs=%zu queue first=%p\n", (void*)A, A->used, A->capacity, A->reserved, (int)mi_page_has_aligned(A), (int)mi_page_is_in_full(A), (void*)B, B->used, B->capacity, B->reserved, (void*)B->free, mi_page_block_size(A), (void*)mi_heap_get_default()->pages[_mi_bin(mi_page_block_size(A))].first);
    return 0;
  }
  if (strcmp(s, "S6") == 0) {
    /* the page of the heap descriptor's size class has an empty free list: the next block of that class (a new heap's
       descriptor) is the last of its extension group, and once released it is the first one handed out again */
    for (int k = 0; k < 64; k++) {
      if (do_op(OP_MALLOC, (long)sizeof(mi_heap_t), 0)) return 1;
      mi_page_t* pg = _mi_ptr_page(vf_live[vf_nlive - 1].p);
      if (pg->free == NULL) { if (do_op(OP_FREE, vf_nlive - 1, 0)) return 1; break; }   /* hand the last one back: it becomes the descriptor */
    }
    return 0;
  }
  if (strcmp(s, "S14") == 0) {
    /* one segment used to its very last slice: 7 small pages (seven size classes), 31 pages of 1 MiB and a 512 KiB page at the end
       (1 + 7 + 496 + 8 = 512 slices); the block of the last page and the 1 MiB block before it are the newest live blocks */
    static const size_t cls[7] = { 16, 32, 48, 64, 80, 96, 112 };
    for (int k = 0; k < 7; k++) if (do_op(OP_MALLOC, (long)cls[k], 0)) return 1;
    const mi_segment_t* seg0 = _mi_ptr_segment(vf_live[0].p);
    for (int k = 0; k < 31; k++) { if (do_op(OP_MALLOC, 1 * MiB, 0)) return 1; if (_mi_ptr_segment(vf_live[vf_nlive - 1].p) != seg0) { vf_violation("start-state", "S14: 1 MiB page %d left the segment", k); return 1; } }
    if (do_op(OP_MALLOC, 500 * KiB, 0)) return 1;
    { const uint8_t* p = vf_live[vf_nlive - 1].p; size_t psize = 0; const uint8_t* ps = _mi_segment_page_start(_mi_ptr_segment(p), _mi_ptr_page(p), &psize);
      if (_mi_ptr_segment(p) != seg0 || ps + psize != (const uint8_t*)seg0 + MI_SEGMENT_SIZE) { vf_violation("start-state", "S14: the last page ends %ld KiB before the end of the segment (page start slice %ld, size %zu KiB, segment used %zu pages)", (long)(((const uint8_t*)seg0 + MI_SEGMENT_SIZE) - (ps + psize)) / 1024, (long)(ps - (const uint8_t*)seg0) / 65536, psize / 1024, seg0->used); return 1; } }
    return 0;
  }
  if (strcmp(s, "S12") == 0) {
    /* a page of the 512-byte class sits at the front of the heap's full queue; the 1024-byte queue is [B, A] where B (first) has
       just handed out its last block but has not been looked at since, and A came back from the full queue with one free block */
    const mi_page_t* p0 = NULL;
    for (int k = 0; k < 200; k++) { if (do_op(OP_MALLOC, 512, 0)) return 1; const mi_page_t* pg = _mi_ptr_page(vf_live[vf_nlive - 1].p); if (p0 == NULL) p0 = pg; if (pg != p0) break; }
    const mi_page_t* pa = NULL; const mi_page_t* pb = NULL; int first_a = vf_nlive;
    for (int k = 0; k < 200; k++) {
      if (do_op(OP_MALLOC, 1024, 0)) return 1;
      const mi_page_t* pg = _mi_ptr_page(vf_live[vf_nlive - 1].p);
      if (pa == NULL) pa = pg;
      else if (pg != pa && pb == NULL) pb = pg;
      if (pb != NULL && pg == pb && pb->free == NULL && pb->local_free == NULL && pb->capacity == pb->reserved) break;     /* B exhausted */
      if (pb != NULL && pg != pb) { vf_violation("start-state", "S12: unexpected third page"); return 1; }
    }
    if (pb == NULL || !mi_page_is_in_full(pa)) { vf_violation("start-state", "S12: geometry (A not in the full queue)"); return 1; }
    if (do_op(OP_FREE, first_a, 0)) return 1;     /* A leaves the full queue and is appended behind B */
    return 0;
  }
  if (strcmp(s, "S11") == 0) {
    /* three adjacent 3 MiB pages and a guard block behind them in one segment: released in any order they coalesce into one span
       that covers whole 4 MiB fields of the segment's commit / purge masks */
    for (int k = 0; k < 3; k++) if (do_op(OP_MALLOC, 3 * MiB, 0)) return 1;
    if (do_op(OP_MALLOC, 1 * MiB, 0)) return 1;
    return 0;
  }
  if (strcmp(s, "S10") == 0) {
    /* one segment filled to its end with 1 MiB pages (the last pages use the last field of the segment's commit / purge masks) */
    const mi_segment_t* seg0 = NULL;
    for (int k = 0; k < 40; k++) {
      if (do_op(OP_MALLOC, 1 * MiB, 0)) return 1;
      const mi_segment_t* sg = _mi_ptr_segment(vf_live[vf_nlive - 1].p);
      if (seg0 == NULL) seg0 = sg;
      if (sg != seg0) { if (do_op(OP_FREE, vf_nlive - 1, 0)) return 1; break; }
    }
    return 0;
  }
  if (strcmp(s, "S13") == 0) {
    /* like S9 with a 5 GiB arena whose blocks 1..126 are taken: the next segments (those of helper threads) land in arena block 127
       -- the last bit of the second bitmap field -- and then in the third field */
    mi_arena_id_t aid = 0;
    if (mi_reserve_os_memory_ex((size_t)5120 * MiB, false, false, false, &aid) != 0) { fprintf(stderr, "cannot reserve arena\n"); return 2; }
    if (do_op(OP_MALLOC, 8 * KiB, 0) || do_op(OP_MALLOC, 8 * KiB, 0)) return 1;
    mi_memid_t memid;
    void* blk = _mi_arena_alloc((size_t)126 * MI_ARENA_BLOCK_SIZE, false, false, aid, &memid);
    if (blk == NULL) { fprintf(stderr, "cannot pre-claim arena blocks\n"); return 2; }
    return 0;
  }
  if (strcmp(s, "S9") == 0) {
    /* like S5, but the first arena block holds a live segment with two live 8 KiB blocks, blocks 1..63 are taken, and the
       next segments land in the second bitmap field (arena block index >= 64) */
    mi_arena_id_t aid = 0;
    if (mi_reserve_os_memory_ex((size_t)4096 * MiB, false, false, false, &aid) != 0) { fprintf(stderr, "cannot reserve arena\n"); return 2; }
    if (do_op(OP_MALLOC, 8 * KiB, 0) || do_op(OP_MALLOC, 8 * KiB, 0)) return 1;
    mi_memid_t memid;
    void* blk = _mi_arena_alloc((size_t)63 * MI_ARENA_BLOCK_SIZE, false, false, aid, &memid);
    if (blk == NULL) { fprintf(stderr, "cannot pre-claim arena blocks\n"); return 2; }
    return 0;
  }
  if (s[0] == 'S' && (s[1] == 'a' || s[1] == 'n' || s[1] == 'm')) {
    /* Sa<shape>: shape = delta index (0..3) * 16 + size index (0..3) * 4 + exclusive * 2 + committed;
       Sn<shape>: the same, registered for NUMA node 1 (the allocating threads run on node 0: a "foreign" arena)
       Sm<shape>: as Sa, registered through the six-argument mi_manage_os_memory (never exclusive; the arena id is looked up through mi_arena_area) */
    int shape = atoi(s + 2); const int numa = (s[1] == 'n' ? 1 : -1);
    static const size_t deltas[4] = { 0, 4096, 1 * MiB, 32 * MiB - 4096 };
    static const size_t sizes[4] = { 64 * MiB, 95 * MiB, 96 * MiB, 100 * MiB };
    size_t delta = deltas[(shape >> 4) & 3], size = sizes[(shape >> 2) & 3]; int excl = (shape >> 1) & 1, committed = shape & 1;
    size_t maplen = size + delta + 64 * MiB + 2 * 4096;
    uint8_t* raw = (uint8_t*)vf_real_mmap(NULL, maplen, PROT_NONE, MAP_PRIVATE | MAP_ANONYMOUS | MAP_NORESERVE, -1, 0);
    if (raw == MAP_FAILED) { perror("mmap region"); return 2; }
    uint8_t* base = (uint8_t*)(((uintptr_t)raw + 4096 + MI_SEGMENT_SIZE - 1) & ~(uintptr_t)(MI_SEGMENT_SIZE - 1));   /* 32 MiB aligned */
    uint8_t* given = base + delta;
    /* guard pages (PROT_NONE) right before `base` and after the given range + one canary page; in between: canaries, then the given range */
    uint8_t* rw_lo = base; uint8_t* rw_hi = given + size + 4096;
    mprotect(rw_lo, (size_t)(rw_hi - rw_lo), committed ? (PROT_READ | PROT_WRITE) : PROT_NONE);
    if (delta > 0) mprotect(base, delta, PROT_READ | PROT_WRITE);
    mprotect(given + size, 4096, PROT_READ | PROT_WRITE);
    for (uintptr_t a = (uintptr_t)base; a < (uintptr_t)given; a += 4096) *(volatile uint64_t*)a = 0xC0FFEE0000000000ULL ^ a;
    *(volatile uint64_t*)(given + size) = 0xC0FFEE0000000000ULL ^ (uintptr_t)(given + size);
    g_map_lo = (uintptr_t)base; g_map_hi = (uintptr_t)given + size + 4096; g_given_lo = (uintptr_t)given; g_given_hi = (uintptr_t)given + size;
    vf_os_adopt(given, size, committed ? VF_P_RW : VF_P_NONE);
    if (s[1] == 'm') {
      excl = 0;
      if (!mi_manage_os_memory(given, size, committed, false /* large */, true /* zero */, numa)) { fprintf(stderr, "mi_manage_os_memory refused the region\n"); return 2; }
      g_arena = 0;
      for (int id = 1; id <= 128 && g_arena == 0; id++) { size_t z = 0; uintptr_t a = (uintptr_t)mi_arena_area((mi_arena_id_t)id, &z); if (a >= (uintptr_t)given && a < (uintptr_t)given + size) g_arena = (mi_arena_id_t)id; }
      if (g_arena == 0) { vf_violation("outside-given-bounds", "no arena lies inside the range [%p,+%zu) given to mi_manage_os_memory", given, size); return 1; }
    }
    else if (!mi_manage_os_memory_ex(given, size, committed, false, true, numa, excl, &g_arena)) { fprintf(stderr, "mi_manage_os_memory_ex refused the region\n"); return 2; }
    size_t asz = 0; void* astart = mi_arena_area(g_arena, &asz);
    g_arena_lo = (uintptr_t)astart; g_arena_hi = g_arena_lo + asz; g_arena_excl = excl;
    if (g_arena_lo < (uintptr_t)given || g_arena_hi > (uintptr_t)given + size) { vf_violation("outside-given-bounds", "the arena [%p,+%zu) is not inside the given range [%p,+%zu)", astart, asz, given, size); return 1; }
    /* from here on the shim reports every OS call on memory it does not know (outside the adopted range and mimalloc's own mappings) */
    vf_os.untracked_touch = 0; vf_os.untracked_addr = 0;
    return 0;
  }
  fprintf(stderr, "unknown start state %s\n", s);
  return 2;
}

int main(int argc, char** argv) {
  vf_prop = vf_arg(argc, argv, "--prop", "C01");
  vf_outdir = vf_arg(argc, argv, "--outdir", "/verif");
  const char* profname = vf_arg(argc, argv, "--profile", "P1");
  const char* start = vf_arg(argc, argv, "--start", "S0");
  const char* out = vf_arg(argc, argv, "--out", NULL);
  const char* replay = vf_arg(argc, argv, "--replay", NULL);
  const char* observe = vf_arg(argc, argv, "--observe", "");
  vf_seq.maxdepth = atoi(vf_arg(argc, argv, "--depth", "4"));
  vf_seq.pardepth = atoi(vf_arg(argc, argv, "--pardepth", "2"));
  vf_seq.prune = vf_flag(argc, argv, "--prune");
  vf_verbose = vf_flag(argc, argv, "-v");
  if (vf_verbose) vf_install_crash_handler();
  g_dirty = vf_flag(argc, argv, "--dirty");
  g_obs_walk = (strstr(observe, "walk") != NULL);
  g_obs_owner = (strstr(observe, "owner") != NULL);
  g_obs_abandoned = (strstr(observe, "abandoned") != NULL);
  if (strstr(observe, "monitor") != NULL) vf_os.monitor = &purge_monitor;
  double deadline = atof(vf_arg(argc, argv, "--deadline", "600"));
  vf_shared_init(deadline);
  if (!vf_verbose) mi_register_output(&vf_out_null, NULL);
  mi_register_error(&vf_error_cb, NULL);
#if MI_DEBUG
  vf_error_hook = &dbg_error_hook;
#endif

  if (replay) {
    if (vf_load_replay(replay) < 0) return 2;
    /* cfg line: "<profile> <start> [dirty] [observe=...]" */
    char prof[32] = "P1", st[32] = "S0", rest[128] = "";
    sscanf(vf_cfg, "%31s %31s %127[^\n]", prof, st, rest);
    profname = strdup(prof); start = strdup(st);
    if (strstr(rest, "dirty")) g_dirty = 1;
    if (strstr(rest, "walk")) g_obs_walk = 1;
    if (strstr(rest, "owner")) g_obs_owner = 1;
    if (strstr(rest, "abandoned")) g_obs_abandoned = 1;
    if (strstr(rest, "monitor")) vf_os.monitor = &purge_monitor;
  }
  for (size_t i = 0; i < sizeof(profiles) / sizeof(profiles[0]); i++) if (strcmp(profiles[i].name, profname) == 0) g_prof = &profiles[i];
  if (strcmp(g_prof->name, profname) != 0) { fprintf(stderr, "unknown profile %s\n", profname); return 2; }
  snprintf(vf_cfg, sizeof(vf_cfg), "%s %s%s%s%s%s", profname, start, g_dirty ? " dirty" : "", g_obs_walk ? " walk" : "", g_obs_owner ? " owner" : "", g_obs_abandoned ? (vf_os.monitor ? " abandoned monitor" : " abandoned") : (vf_os.monitor ? " monitor" : ""));

  int saved_depth = vf_depth; vf_depth = 0;
  int r = build_start(start);
  if (r == 2) return 2;
  if (r != 0) { fprintf(stderr, "violation while building start state %s\n", start); }
  vf_depth = saved_depth;

  if (replay) {
    int bad = (r != 0) || vf_seq_replay();
    if (vf_sh->nviol > 0) printf("REPLAY violation key=%s msg=%s\n", vf_sh->viol[0].key, vf_sh->viol[0].msg);
    else printf("REPLAY no violation\n");
    return bad || vf_sh->nviol > 0 ? 1 : 0;
  }
  if (r == 0) vf_seq_node();
  char extra[256];
  snprintf(extra, sizeof(extra), "\"profile\":\"%s\",\"start\":\"%s\",\"depth\":%d,\"os_calls\":%ld,\"realloc_moved\":%ld,\"realloc_inplace\":%ld", profname, start, vf_seq.maxdepth, vf_os.ncalls, vf_sh->counters[0], vf_sh->counters[1]);
  if (out) vf_write_result(out, extra);
  if (vf_sh->infra_error) return 2;
  return vf_sh->nviol > 0 ? 1 : 0;
}
