/* h_arith.c -- C16: exhaustive enumeration of the compiled size-class and address arithmetic.
 *   sec 1  every size 0..2*MI_MEDIUM_OBJ_SIZE_MAX (+ all class boundaries up to PTRDIFF_MAX): bin/bin-size/good-size laws,
 *          and mi_usable_size(mi_malloc(n)) == mi_good_size(n) up to the medium limit (unpadded builds)
 *   sec 2  class selection is history independent: for all ordered pairs (i,j) of small sizes at class edges, the sequence
 *          malloc(i); malloc(j); malloc(i) gives usable == good_size each time, and after each step every entry of the
 *          direct small-size table points to a page of exactly that size's class (or to the empty page)
 *   sec 3  span bins for all slice counts 0..1024
 *   sec 4  address recovery on real pages: every bin, pages at every position of a segment, every block index of every
 *          page, interior offsets {0,1,8,bs/2,bs-1}: segment, page and block start are recovered
 *   sec 5  mi_fast_divide == / for all bin block sizes (+-padding) x all multiples in a page, and all divisors 1..65536
 *   sec 6  _mi_align_up/down, _mi_divide_up, mi_mul_overflow, mi_count_size_overflow, _mi_wsize_from_size, clz/ctz/bsr/popcount
 * usage: h_arith --prop C16 --out res.json [--replay file]
 */
#include "src/static.c"
#include "verif_post.h"
#include "vf_harness.h"
#include <limits.h>

static char g_case_desc[256];
static void vf_op_str(vf_op_t op, char* buf, size_t n) { snprintf(buf, n, "sec%ld(%ld)", op.a, op.b); }
static int  vf_list_ops(vf_op_t* out, int max) { (void)out; (void)max; return 0; }
static int  vf_apply(vf_op_t op) { (void)op; return 0; }
static int  vf_check_node(void) { return 0; }
#define VIOL(key, ...) do { char m_[400]; snprintf(m_, sizeof(m_), __VA_ARGS__); vf_violation(key, "%s", m_); } while (0)
#define CASE(sec, arg) do { vf_path[0].code = 1; vf_path[0].a = (sec); vf_path[0].b = (long)(arg); vf_depth = 1; } while (0)

static long g_only_arg = -1;   /* replay: only this argument of the section */

/* ---- sec 1 ------------------------------------------------------------------------------------------ */
static int check_size(size_t n, size_t* prev_bsize, int with_malloc) {
  CASE(1, n); VF_INC(nodes); VF_INC(transitions);
  size_t bin = mi_bin(n);
  if (bin > MI_BIN_HUGE) { VIOL("bin-range", "mi_bin(%zu) = %zu > MI_BIN_HUGE", n, bin); return -1; }
  size_t bs = _mi_bin_size(bin);
  if (bin < MI_BIN_HUGE) {
    if (bs < n) { VIOL("bin-too-small", "size %zu: chosen block size %zu is smaller than the request", n, bs); return -1; }
    if (*prev_bsize > bs) { VIOL("bin-not-monotone", "size %zu gets block size %zu but a smaller request got %zu", n, bs, *prev_bsize); return -1; }
    if (n > 64 && (bs - n) * 4 > bs) { VIOL("fragmentation", "size %zu gets block size %zu: internal fragmentation above 25%%", n, bs); return -1; }
    *prev_bsize = bs;
  }
  size_t g = mi_good_size(n);
  if (g < n) { VIOL("good-size-small", "mi_good_size(%zu) = %zu", n, g); return -1; }
#if !MI_PADDING   /* with padding mi_good_size adds the padding again each time: idempotence is a property of unpadded builds */
  if (mi_good_size(g) != g && n <= MI_MEDIUM_OBJ_SIZE_MAX) { VIOL("good-size-not-idempotent", "mi_good_size(%zu) = %zu but mi_good_size(%zu) = %zu", n, g, g, mi_good_size(g)); return -1; }
#endif
  if (with_malloc) {
    void* p = mi_malloc(n);
    if (p == NULL) { VIOL("null-result", "mi_malloc(%zu) = NULL", n); return -1; }
    size_t u = mi_usable_size(p);
    VF_INC(checks);
    if (u < n) { VIOL("usable-too-small", "mi_usable_size(mi_malloc(%zu)) = %zu", n, u); return -1; }
#if !MI_PADDING
    if (n <= MI_MEDIUM_OBJ_SIZE_MAX && u != g) { VIOL("usable-ne-good-size", "mi_usable_size(mi_malloc(%zu)) = %zu but mi_good_size = %zu", n, u, g); return -1; }
#endif
    size_t nat = (n >= 16 ? 16 : 8);
    if (((uintptr_t)p % nat) != 0) { VIOL("natural-misaligned", "mi_malloc(%zu) = %p", n, p); return -1; }
    mi_free(p);
  }
  if (n > 64) VF_INC(nontrivial);
  return 0;
}
static void sec1(void) {
  size_t prev = 0;
  for (size_t n = 0; n <= 2 * MI_MEDIUM_OBJ_SIZE_MAX; n++) {
    if (g_only_arg >= 0 && (size_t)g_only_arg != n) { size_t bin = mi_bin(n); if (bin < MI_BIN_HUGE) prev = _mi_bin_size(bin); continue; }
    if (check_size(n, &prev, 1)) return;
  }
  /* all class boundaries and powers of two up to PTRDIFF_MAX (no allocation) */
  if (g_only_arg >= 0) return;
  prev = 0;
  for (size_t bin = 1; bin < MI_BIN_HUGE; bin++) for (long d = -1; d <= 1; d++) { size_t n = _mi_bin_size(bin) + (size_t)d; size_t p0 = 0; if (check_size(n, &p0, 0)) return; }
  for (int sh = 17; sh < 63; sh++) for (long d = -1; d <= 1; d++) { size_t n = ((size_t)1 << sh) + (size_t)d; size_t p0 = 0; if (check_size(n, &p0, 0)) return; }
  { size_t p0 = 0; if (check_size((size_t)PTRDIFF_MAX, &p0, 0)) return; }
  /* large and huge requests (one block per page): the block that mi_malloc really hands out is at least the request, monotone in the
     request and wastes at most 25% -- every multiple of 4 KiB from 128 KiB to 64 MiB, each with -1 / 0 / +1 (address space only) */
  size_t prev_u = 0;
  for (size_t k = 32; k <= 16384; k++) for (long d = -1; d <= 1; d++) {
    size_t n = k * 4096 + (size_t)d;
    CASE(1, n); VF_INC(nodes); VF_INC(transitions); VF_INC(checks);
    size_t g = mi_good_size(n);
    if (g < n) { VIOL("good-size-small", "mi_good_size(%zu) = %zu", n, g); return; }
    void* p = mi_malloc(n);
    if (p == NULL) { VIOL("null-result", "mi_malloc(%zu) = NULL", n); return; }
    size_t u = mi_usable_size(p);
    mi_free(p);
    if (u < n) { VIOL("usable-too-small", "mi_usable_size(mi_malloc(%zu)) = %zu", n, u); return; }
    if (u < prev_u) { VIOL("bin-not-monotone", "mi_malloc(%zu) got a block of %zu usable bytes but a smaller request got %zu", n, u, prev_u); return; }
    if ((u - n) * 4 > u) { VIOL("fragmentation", "mi_malloc(%zu) got a block of %zu usable bytes: internal fragmentation above 25%%", n, u); return; }
    prev_u = u;
    VF_INC(nontrivial);
  }
}

/* ---- sec 2 ------------------------------------------------------------------------------------------ */
static int direct_table_ok(const char* when, size_t a, size_t b) {
  mi_heap_t* h = mi_heap_get_default();
  for (size_t w = 0; w < MI_PAGES_DIRECT; w++) {
    mi_page_t* pg = h->pages_free_direct[w];
    VF_INC(checks);
    if (pg == NULL) { VIOL("direct-null", "%s (sizes %zu,%zu): pages_free_direct[%zu] is NULL", when, a, b, w); return -1; }
    if (pg == (mi_page_t*)&_mi_page_empty) continue;
    size_t want = _mi_bin_size(mi_bin(w * sizeof(uintptr_t)));
    if (mi_page_block_size(pg) != want) { VIOL("direct-wrong-class", "%s (after malloc(%zu), malloc(%zu)): the fast-path table entry for %zu-byte requests points to a page with block size %zu, its class is %zu", when, a, b, w * sizeof(uintptr_t), mi_page_block_size(pg), want); return -1; }
  }
  return 0;
}
static void sec2(void) {
  /* representatives: lowest and highest request of every class up to MI_SMALL_SIZE_MAX, minus padding */
  size_t reps[256]; int nr = 0;
  for (size_t bin = 1; bin < MI_BIN_HUGE && _mi_bin_size(bin) <= MI_SMALL_SIZE_MAX + 64; bin++) {
    size_t hi = _mi_bin_size(bin), lo = (bin > 1 ? _mi_bin_size(bin - 1) + 1 : 1);
    if (hi >= MI_PADDING_SIZE + 1) { size_t v = hi - MI_PADDING_SIZE; if (nr < 256) reps[nr++] = v; }
    if (lo > MI_PADDING_SIZE && lo - MI_PADDING_SIZE != hi - MI_PADDING_SIZE) { if (nr < 256) reps[nr++] = lo - MI_PADDING_SIZE; }
  }
  long idx = 0;
  for (int i = 0; i < nr; i++) for (int j = 0; j < nr; j++) {
    long my = idx++;
    if (g_only_arg >= 0 && g_only_arg != my) continue;
    CASE(2, my); VF_INC(nodes);
    size_t a = reps[i], b = reps[j];
    void* p[3]; size_t sz[3] = { a, b, a };
    for (int k = 0; k < 3; k++) {
      p[k] = mi_malloc(sz[k]); VF_INC(transitions);
      if (!p[k]) { VIOL("null-result", "mi_malloc(%zu)", sz[k]); return; }
      size_t u = mi_usable_size(p[k]), g = mi_good_size(sz[k]);
#if !MI_PADDING
      if (u != g) { VIOL("usable-ne-good-size", "sequence malloc(%zu); malloc(%zu); malloc(%zu): step %d returned a block with usable size %zu, mi_good_size(%zu) = %zu (the class chosen depends on the history)", a, b, a, k + 1, u, sz[k], g); return; }
#else
      if (u < sz[k]) { VIOL("usable-too-small", "usable %zu < %zu", u, sz[k]); return; }
      (void)g;
#endif
      if (direct_table_ok("direct table", a, b)) return;
    }
    for (int k = 0; k < 3; k++) mi_free(p[k]);
    mi_collect(true);      /* pages are released: the next pair starts from fresh queues again */
    if (mi_bin(a + MI_PADDING_SIZE) != mi_bin(b + MI_PADDING_SIZE)) VF_INC(nontrivial);
  }
}

/* ---- sec 3 ------------------------------------------------------------------------------------------ */
static void sec3(void) {
  size_t prev = 0;
  mi_heap_t* h = mi_heap_get_default();
  for (size_t c = 0; c <= MI_SLICES_PER_SEGMENT; c++) {
    if (g_only_arg >= 0 && (size_t)g_only_arg != c) continue;
    CASE(3, c); VF_INC(nodes); VF_INC(transitions);
    size_t bin = mi_slice_bin8(c);
    if (bin > MI_SEGMENT_BIN_MAX) { VIOL("span-bin-range", "mi_slice_bin8(%zu) = %zu > MI_SEGMENT_BIN_MAX", c, bin); return; }
    if (bin < prev && g_only_arg < 0) { VIOL("span-bin-not-monotone", "mi_slice_bin8(%zu) = %zu < bin of %zu", c, bin, c - 1); return; }
    prev = bin;
    size_t cap = h->tld->segments.spans[bin].slice_count;
    if (cap < c) { VIOL("span-bin-too-small", "slice count %zu maps to span bin %zu whose queue holds spans of at most %zu slices", c, bin, cap); return; }
    if (bin > 0 && c > 1 && h->tld->segments.spans[bin - 1].slice_count >= c) { VIOL("span-bin-not-tight", "slice count %zu maps to bin %zu but bin %zu (<= %zu slices) already fits", c, bin, bin - 1, h->tld->segments.spans[bin - 1].slice_count); return; }
    VF_INC(nontrivial);
  }
}

/* ---- sec 4 ------------------------------------------------------------------------------------------ */
static int check_addr(const mi_segment_t* seg, const mi_page_t* page, uint8_t* block, size_t bs, size_t bin) {
  static const int noffs = 5;
  size_t offs[5] = { 0, 1, 8, bs / 2, bs - 1 };
  for (int k = 0; k < noffs; k++) {
    if (offs[k] >= bs) continue;
    uint8_t* q = block + offs[k];
    VF_INC(checks);
    if (_mi_ptr_segment(q) != seg) { VIOL("segment-recovery", "bin %zu (block size %zu): address %p (block %p + %zu) maps to segment %p, expected %p", bin, bs, q, block, offs[k], (void*)_mi_ptr_segment(q), (void*)seg); return -1; }
    if (_mi_segment_page_of(seg, q) != page) { VIOL("page-recovery", "bin %zu (block size %zu): address %p (block %p + %zu) maps to page %p, expected %p", bin, bs, q, block, offs[k], (void*)_mi_segment_page_of(seg, q), (void*)page); return -1; }
    if ((uint8_t*)_mi_page_ptr_unalign(page, q) != block) { VIOL("block-recovery", "bin %zu (block size %zu): interior address %p recovers block start %p, expected %p (page start %p)", bin, bs, q, (void*)_mi_page_ptr_unalign(page, q), block, page->page_start); return -1; }
  }
  return 0;
}
static size_t g_wk_n, g_wk_bs; static uint64_t g_wk_h; static int g_wk_bad;
static bool walk_count_cb(const mi_heap_t* heap, const mi_heap_area_t* area, void* block, size_t block_size, void* arg) {
  (void)heap; (void)arg;
  if (block == NULL || area->full_block_size != g_wk_bs) return true;
  g_wk_n++; g_wk_h += vf_mix((uintptr_t)block); if (block_size != area->block_size) g_wk_bad++;
  return true;
}
static void sec4_bin(long bin) {
  CASE(4, bin); VF_INC(nodes);
  size_t bs = _mi_bin_size((size_t)bin);
  if (bs <= MI_PADDING_SIZE) return;
  size_t req = bs - MI_PADDING_SIZE;
  if (mi_bin(req + MI_PADDING_SIZE) != (size_t)bin) return;   /* a bin that no request maps to on this platform (odd word sizes below 8 words: 16-byte alignment) */
  /* enough blocks to fill pages at many positions of (more than) one segment, bounded for the run time */
  size_t per_page = (bs <= MI_SMALL_OBJ_SIZE_MAX ? MI_SMALL_PAGE_SIZE / bs : (bs <= MI_MEDIUM_OBJ_SIZE_MAX ? MI_MEDIUM_PAGE_SIZE / bs : 1));
  size_t npages = (bs <= MI_SMALL_OBJ_SIZE_MAX ? 600 : 80);
  size_t nblocks = per_page * npages; if (nblocks > 40000) nblocks = 40000;
  void** ptrs = (void**)vf_real_mmap(NULL, nblocks * sizeof(void*), PROT_READ | PROT_WRITE, MAP_PRIVATE | MAP_ANONYMOUS, -1, 0);
  const mi_page_t* last_page = NULL; size_t pages_seen = 0, segs_seen = 0; const mi_segment_t* last_seg = NULL;
  for (size_t i = 0; i < nblocks; i++) {
    ptrs[i] = mi_malloc(req); VF_INC(transitions);
    if (!ptrs[i]) { VIOL("null-result", "mi_malloc(%zu)", req); return; }
    uint8_t* p = (uint8_t*)ptrs[i];
    const mi_segment_t* seg = _mi_ptr_segment(p);
    const mi_page_t* page = _mi_segment_page_of(seg, p);
    if (mi_page_block_size(page) != bs) { VIOL("wrong-class", "mi_malloc(%zu) landed in a page with block size %zu, expected %zu", req, mi_page_block_size(page), bs); return; }
    if (check_addr(seg, page, p, bs, (size_t)bin)) return;
    if (page != last_page) {
      /* first block seen in this page: check every block index of the page (pure arithmetic on real metadata) */
      pages_seen++; last_page = page; if (seg != last_seg) { segs_seen++; last_seg = seg; }
      for (size_t k = 0; k < page->reserved; k++) if (check_addr(seg, page, page->page_start + k * bs, bs, (size_t)bin)) return;
      size_t psize; uint8_t* ps = _mi_segment_page_start(seg, page, &psize);
      if (ps != page->page_start || (size_t)page->reserved * bs > psize) { VIOL("page-geometry", "bin %ld: page start %p/%p, reserved %u x %zu > page size %zu", bin, ps, page->page_start, page->reserved, bs, psize); return; }
      if (bs <= MI_MAX_ALIGN_GUARANTEE && _mi_is_power_of_two(bs) && ((uintptr_t)page->page_start % bs) != 0) { VIOL("page-start-alignment", "bin %ld: power-of-two block size %zu but page start %p is not aligned to it", bin, bs, page->page_start); return; }
    }
  }
  VF_ADD(counters[3], (long)pages_seen);
  if (segs_seen > 1) VF_INC(nontrivial);
  /* the heap walk recovers the index of every free block of a partially used page with a fast division by the block size:
     release every third block, walk, and require exactly the live blocks of this class (each with the usable size) */
  { size_t live = 0; uint64_t hsum = 0;
    for (size_t i = 0; i < nblocks; i++) { if (i % 3 == 0) { mi_free(ptrs[i]); ptrs[i] = NULL; } else { live++; hsum += vf_mix((uintptr_t)ptrs[i]); } }
    g_wk_n = 0; g_wk_h = 0; g_wk_bs = bs; g_wk_bad = 0;
    mi_heap_visit_blocks(mi_heap_get_default(), true, &walk_count_cb, NULL);
    VF_INC(checks);
    if (g_wk_n != live || g_wk_h != hsum || g_wk_bad) { VIOL("walk-blocks", "bin %ld (block size %zu): after releasing every third of %zu blocks the heap walk reports %zu blocks of this class (expected %zu; address sum %s; %d with a wrong size)", bin, bs, nblocks, g_wk_n, live, g_wk_h == hsum ? "equal" : "differs", g_wk_bad); return; }
  }
  for (size_t i = 0; i < nblocks; i++) mi_free(ptrs[i]);
  vf_real_munmap(ptrs, nblocks * sizeof(void*));
}
static void sec4_huge(long k) {
  /* large / huge / over-aligned blocks: interior addresses far from the start, alignment 64 and 128 MiB use the extra slice entry */
  static const size_t sizes[] = { 100 * 1024, 1024 * 1024 + 17, 15 * MI_MiB, 17 * MI_MiB, 40 * MI_MiB, 70 * MI_MiB };
  static const size_t aligns[] = { 0, 64 * 1024, 4 * MI_MiB, 64 * MI_MiB, 128 * MI_MiB };
  size_t n = sizes[k % 6], a = aligns[k / 6];
  CASE(5, k); VF_INC(nodes); VF_INC(transitions);
  uint8_t* p = (uint8_t*)(a ? mi_malloc_aligned(n, a) : mi_malloc(n));
  if (!p) { VIOL("null-result", "size %zu align %zu", n, a); return; }
  const mi_segment_t* seg = _mi_ptr_segment(p); const mi_page_t* page = _mi_segment_page_of(seg, p);
  uint8_t* block = (uint8_t*)_mi_page_ptr_unalign(page, p);
  size_t usable = mi_usable_size(p);
  if (usable < n) { VIOL("usable-too-small", "size %zu align %zu: usable %zu", n, a, usable); return; }
  size_t offs[] = { 0, 1, n / 2, n - 1, usable - 1, 65536, MI_SEGMENT_SIZE / 2 + 5, MI_SEGMENT_SIZE - 1, MI_SEGMENT_SIZE + 1 };
  for (size_t i = 0; i < sizeof(offs) / sizeof(offs[0]); i++) {
    if (offs[i] >= usable) continue;
    /* only pointers within MI_BLOCK_ALIGNMENT_MAX of the block start are documented to be recoverable by mi_free & co
       (slice back-pointers are limited); beyond that only the segment-level lookup is checked */
    uint8_t* q = p + offs[i];
    VF_INC(checks);
    /* interior pointers are supported up to MI_MAX_SLICE_OFFSET_COUNT slices behind the page's first slice (types.h) */
    if ((size_t)(q - (uint8_t*)page->page_start) < (size_t)MI_MAX_SLICE_OFFSET_COUNT * MI_SEGMENT_SLICE_SIZE) {
      if (_mi_ptr_segment(q) != seg) { VIOL("segment-recovery", "size %zu align %zu: %p + %zu maps to another segment", n, a, p, offs[i]); return; }
      if (_mi_segment_page_of(seg, q) != page) { VIOL("page-recovery", "size %zu align %zu: %p + %zu maps to page %p, expected %p", n, a, p, offs[i], (void*)_mi_segment_page_of(seg, q), (void*)page); return; }
      if ((uint8_t*)_mi_page_ptr_unalign(page, q) != block) { VIOL("block-recovery", "size %zu align %zu: %p + %zu recovers block %p, expected %p", n, a, p, offs[i], (void*)_mi_page_ptr_unalign(page, q), block); return; }
    }
  }
  if (a > 0 && ((uintptr_t)p % a) != 0) { VIOL("misaligned", "size %zu align %zu: %p", n, a, p); return; }
  VF_INC(nontrivial);
  mi_free(p);
}

/* ---- sec 5 ------------------------------------------------------------------------------------------ */
static int check_div(size_t d, size_t n) {
  uint64_t magic; size_t shift;
  mi_get_fast_divisor(d, &magic, &shift);
  VF_INC(checks);
  if (mi_fast_divide(n, magic, shift) != n / d) { vf_path[0].b = (long)d; VIOL("fast-divide", "mi_fast_divide(%zu / %zu) = %zu, expected %zu", n, d, mi_fast_divide(n, magic, shift), n / d); return -1; }
  return 0;
}
static void sec5(long part) {
  CASE(6, part);
  if (part == 0) {
    for (size_t bin = 1; bin < MI_BIN_HUGE; bin++) for (int pad = 0; pad <= 8; pad += 8) {
      size_t d = _mi_bin_size(bin) + (size_t)pad; VF_INC(nodes);
      size_t lim = MI_MEDIUM_PAGE_SIZE + 65536;
      for (size_t n = 0; n <= lim; n += d) { VF_INC(transitions); if (check_div(d, n)) return; if (n > 0 && check_div(d, n - 1)) return; if (check_div(d, n + d - 1)) return; }
      VF_INC(nontrivial);
    }
  } else {
    size_t lo = 1 + (size_t)(part - 1) * 4096, hi = lo + 4096;
    for (size_t d = lo; d < hi && d <= 65536; d++) { VF_INC(nodes);
      for (size_t q = 0; q <= 64; q++) { VF_INC(transitions); if (check_div(d, d * q)) return; if (check_div(d, d * q + d - 1)) return; if (q > 0 && check_div(d, d * q - 1)) return; }
      /* and the largest numerators the walk can produce */
      if (check_div(d, UINT32_MAX)) return; if (check_div(d, UINT32_MAX - d)) return; if (check_div(d, (UINT32_MAX / d) * d)) return;
      VF_INC(nontrivial);
    }
  }
}

/* ---- sec 6 ------------------------------------------------------------------------------------------ */
static size_t g_grid[600]; static int g_ngrid;
static void build_grid(void) {
  for (int sh = 0; sh < 64; sh++) for (long d = -2; d <= 2; d++) { size_t v = ((size_t)1 << sh) + (size_t)d; g_grid[g_ngrid++] = v; }
  size_t extra[] = { 0, 3, 5, 7, 12, 24, 48, 100, 1000, 4095, 4097, 65535, 65537, SIZE_MAX, SIZE_MAX - 1, SIZE_MAX / 2, SIZE_MAX / 3, (size_t)PTRDIFF_MAX, (size_t)PTRDIFF_MAX + 1, MI_SEGMENT_SIZE, MI_SEGMENT_SIZE - 1, MI_MAX_ALLOC_SIZE, MI_MAX_ALLOC_SIZE + 1 };
  for (size_t i = 0; i < sizeof(extra) / sizeof(extra[0]); i++) g_grid[g_ngrid++] = extra[i];
}
static void sec6(void) {
  CASE(7, 0);
  build_grid();
  for (int i = 0; i < g_ngrid; i++) {
    size_t x = g_grid[i]; VF_INC(nodes);
    /* bit scans */
    if (x != 0) {
      size_t clz = 0; for (int b = 63; b >= 0 && !((x >> b) & 1); b--) clz++;
      size_t ctz = 0; for (int b = 0; b < 64 && !((x >> b) & 1); b++) ctz++;
      if (mi_clz(x) != clz || mi_ctz(x) != ctz || mi_bsr(x) != 63 - clz) { VIOL("bitscan", "x=%zu: clz %zu/%zu ctz %zu/%zu bsr %zu/%zu", x, mi_clz(x), clz, mi_ctz(x), ctz, mi_bsr(x), 63 - clz); return; }
    } else if (mi_clz(0) != 64 || mi_ctz(0) != 64) { VIOL("bitscan", "clz(0)=%zu ctz(0)=%zu", mi_clz(0), mi_ctz(0)); return; }
    size_t pc = 0; for (int b = 0; b < 64; b++) pc += (x >> b) & 1;
    if (mi_popcount(x) != pc) { VIOL("popcount", "popcount(%zu) = %zu, expected %zu", x, mi_popcount(x), pc); return; }
    if (x < SIZE_MAX - 8 && _mi_wsize_from_size(x) != (x + 7) / 8) { VIOL("wsize", "_mi_wsize_from_size(%zu) = %zu", x, _mi_wsize_from_size(x)); return; }
    for (int j = 0; j < g_ngrid; j++) {
      size_t y = g_grid[j]; VF_INC(transitions); VF_INC(checks);
      __uint128_t prod = (__uint128_t)x * y;
      size_t t = 12345; bool ov = mi_mul_overflow(x, y, &t);
      if (ov != (prod > (__uint128_t)SIZE_MAX)) { VIOL("mul-overflow", "mi_mul_overflow(%zu,%zu) = %d", x, y, (int)ov); return; }
      if (!ov && t != (size_t)prod) { VIOL("mul-overflow", "mi_mul_overflow(%zu,%zu) -> %zu", x, y, t); return; }
      size_t tot = 777; bool cov = mi_count_size_overflow(x, y, &tot);
      if (cov != (prod > (__uint128_t)SIZE_MAX)) { VIOL("count-size-overflow", "mi_count_size_overflow(%zu,%zu) = %d", x, y, (int)cov); return; }
      if (!cov && tot != (size_t)prod) { VIOL("count-size-overflow", "mi_count_size_overflow(%zu,%zu) -> %zu", x, y, tot); return; }
      if (cov && tot != SIZE_MAX) { VIOL("count-size-overflow", "on overflow the total must be SIZE_MAX, got %zu", tot); return; }
      if (y != 0 && x <= SIZE_MAX - y) {
        size_t up = _mi_align_up(x, y), dn = _mi_align_down(x, y);
        size_t eup = ((x + y - 1) / y) * y, edn = (x / y) * y;
        if (up != eup || dn != edn) { VIOL("align", "_mi_align_up/down(%zu,%zu) = %zu/%zu, expected %zu/%zu", x, y, up, dn, eup, edn); return; }
        if (_mi_divide_up(x, y) != (x + y - 1) / y) { VIOL("divide-up", "_mi_divide_up(%zu,%zu) = %zu", x, y, _mi_divide_up(x, y)); return; }
      }
    }
    VF_INC(nontrivial);
  }
  /* all 16-bit pairs for the alignment helpers (power-of-two and other alignments) */
  for (size_t x = 0; x < 4096; x++) for (size_t y = 1; y < 300; y++) {
    VF_INC(transitions);
    if (_mi_align_up(x, y) != ((x + y - 1) / y) * y || _mi_align_down(x, y) != (x / y) * y || _mi_divide_up(x, y) != (x + y - 1) / y) { VIOL("align", "align helpers wrong for (%zu,%zu)", x, y); return; }
  }
}

/* ---- driver: sections run as forked children (a crash is attributed to the section) ------------------- */
typedef struct job_s { int sec; long arg; } job_t;
static void run_job(job_t j) {
  switch (j.sec) { case 1: sec1(); break; case 2: sec2(); break; case 3: sec3(); break; case 4: sec4_bin(j.arg); break; case 5: sec4_huge(j.arg); break; case 6: sec5(j.arg); break; case 7: sec6(); break; }
}
int main(int argc, char** argv) {
  vf_prop = vf_arg(argc, argv, "--prop", "C16");
  vf_outdir = vf_arg(argc, argv, "--outdir", "/verif");
  const char* out = vf_arg(argc, argv, "--out", NULL);
  const char* replay = vf_arg(argc, argv, "--replay", NULL);
  vf_verbose = vf_flag(argc, argv, "-v");
  if (vf_verbose) vf_install_crash_handler();
  vf_shared_init(atof(vf_arg(argc, argv, "--deadline", "900")));
  if (!vf_verbose) mi_register_output(&vf_out_null, NULL);
  snprintf(vf_cfg, sizeof(vf_cfg), "arith");
  (void)mi_heap_get_default();
  if (replay) {
    if (vf_load_replay(replay) < 0) return 2;
    job_t j = { (int)vf_path[0].a, vf_path[0].b };
    if (j.sec == 1 || j.sec == 2 || j.sec == 3) g_only_arg = j.arg;
    run_job(j);
    if (vf_sh->nviol > 0) printf("REPLAY violation key=%s msg=%s\n", vf_sh->viol[0].key, vf_sh->viol[0].msg); else printf("REPLAY no violation\n");
    return vf_sh->nviol > 0 ? 1 : 0;
  }
  job_t jobs[256]; int nj = 0;
  jobs[nj++] = (job_t){ 1, 0 }; jobs[nj++] = (job_t){ 2, 0 }; jobs[nj++] = (job_t){ 3, 0 }; jobs[nj++] = (job_t){ 7, 0 };
  for (long b = 1; b < (long)MI_BIN_HUGE; b++) jobs[nj++] = (job_t){ 4, b };
  for (long k = 0; k < 30; k++) jobs[nj++] = (job_t){ 5, k };
  for (long p = 0; p <= 16; p++) jobs[nj++] = (job_t){ 6, p };
  int running = 0, next = 0; pid_t pids[16]; int jidx[16]; memset(pids, 0, sizeof(pids));
  while (next < nj || running > 0) {
    while (running < 16 && next < nj) { int s; for (s = 0; s < 16; s++) if (!pids[s]) break; pid_t pid = fork(); if (pid == 0) { run_job(jobs[next]); _exit(0); } pids[s] = pid; jidx[s] = next; next++; running++; }
    int st = 0; pid_t w = wait(&st); if (w < 0) break;
    for (int s = 0; s < 16; s++) if (pids[s] == w) { pids[s] = 0; running--; if (!(WIFEXITED(st) && WEXITSTATUS(st) == 0)) { vf_path[0].code = 1; vf_path[0].a = jobs[jidx[s]].sec; vf_path[0].b = jobs[jidx[s]].arg; vf_depth = 1; VIOL("crash", "section %d(%ld) died (status 0x%x)", jobs[jidx[s]].sec, jobs[jidx[s]].arg, st); } }
  }
  vf_sample("sec1: sizes 0..%zu each allocated once; sec2: ordered pairs of class-edge sizes; sec4: bins 1..%d, %ld pages inspected", (size_t)2 * MI_MEDIUM_OBJ_SIZE_MAX, (int)MI_BIN_HUGE - 1, vf_sh->counters[3]);
  vf_sample("size 73: bin %zu block %zu good_size %zu; size 65536: bin %zu block %zu; slice count 300 -> span bin %zu", mi_bin(73), _mi_bin_size(mi_bin(73)), mi_good_size(73), mi_bin(65536), _mi_bin_size(mi_bin(65536)), mi_slice_bin8(300));
  char extra[128]; snprintf(extra, sizeof(extra), "\"pages_inspected\":%ld", vf_sh->counters[3]);
  if (out) vf_write_result(out, extra);
  if (vf_sh->infra_error) return 2;
  return vf_sh->nviol > 0 ? 1 : 0;
}
