/* h_os.c -- OS-level checks driven through the shim (engine/vf_os.c):
 *   --mode footprint : C11  every workload x (this process' option configuration): after free-all + forced collect all
 *                      directly-OS-allocated regions are unmapped, arena memory is not resident, repetitions do not grow
 *   --mode purge     : C18  scenario enumeration {what becomes unused} x {later activity} with the virtual clock
 *   --mode fault     : C07  every position k of the OS call sequence of each workload x {single failure, persistent
 *                      failure of mmap / mprotect / madvise / munmap / all}; thorough: all pairs k1<k2
 * Options are taken from the environment (MIMALLOC_*), so one process = one configuration; cases run in forked children.
 */
#include "src/static.c"
#include "verif_post.h"
#include "vf_harness.h"

static const char* g_mode = "footprint";
static int g_pairs = 0;
static const char* g_only_wl = NULL;   /* fault mode: restrict the enumeration to one workload */
static char g_case_desc[300];
static void vf_op_str(vf_op_t op, char* buf, size_t n) { snprintf(buf, n, "case(%ld,%ld)", op.a, op.b); }
static int  vf_list_ops(vf_op_t* out, int max) { (void)out; (void)max; return 0; }
static int  vf_apply(vf_op_t op) { (void)op; return 0; }
static int  vf_check_node(void) { return 0; }
static char g_case_tag[96];   /* short scenario tag: part of the violation key, so that known-findings can name one scenario */
#define VIOL(key, ...) do { char m_[400], k_[200]; snprintf(m_, sizeof(m_), __VA_ARGS__); snprintf(k_, sizeof(k_), "%s:%s", key, g_case_tag); vf_violation(k_, "%s: %s", g_case_desc, m_); } while (0)
#define KiB 1024UL
#define MiB (1024UL * 1024UL)

/* ---------------- fork pool -------------------------------------------------------------------- */
typedef void (*case_fn)(long);
static long g_replay_case = -1;
static void pool_run(long ncases, case_fn fn, int maxpar) {
  int running = 0; long next = 0;
  pid_t pids[64]; long cases[64]; memset(pids, 0, sizeof(pids));
  if (maxpar > 64) maxpar = 64;
  while (next < ncases || running > 0) {
    while (running < maxpar && next < ncases && !vf_sh->stop) {
      long k = next++;
      pid_t pid = fork();
      if (pid == 0) { vf_path[0].code = 1; vf_path[0].a = k; vf_path[0].b = 0; vf_depth = 1; fn(k); _exit(0); }
      for (int i = 0; i < 64; i++) if (pids[i] == 0) { pids[i] = pid; cases[i] = k; break; }
      running++;
    }
    if (running == 0) break;
    int st = 0; pid_t p = wait(&st);
    if (p < 0) break;
    running--;
    long k = -1;
    for (int i = 0; i < 64; i++) if (pids[i] == p) { k = cases[i]; pids[i] = 0; break; }
    if (!(WIFEXITED(st) && WEXITSTATUS(st) == 0)) {
      /* a case process that dies (signal / abort) is a crash of that case */
      vf_path[0].code = 1; vf_path[0].a = k; vf_path[0].b = 0; vf_depth = 1;
      snprintf(g_case_desc, sizeof(g_case_desc), "%s case #%ld", g_mode, k);
      char key[64]; snprintf(key, sizeof(key), "crash");
      vf_violation(key, "%s: case process died (status 0x%x: %s %d)", g_case_desc, st, WIFSIGNALED(st) ? "signal" : "exit", WIFSIGNALED(st) ? WTERMSIG(st) : WEXITSTATUS(st));
    }
    if (vf_now() > vf_sh->t_deadline) { vf_sh->deadline_hit = 1; next = ncases; }
  }
}

/* ---------------- what counts as "directly obtained from the OS and retained by design" ------------------ */
static int in_arena(uintptr_t a, uintptr_t b) {
  size_t na = mi_atomic_load_relaxed(&mi_arena_count);
  for (size_t i = 0; i < na; i++) {
    mi_arena_t* ar = mi_atomic_load_ptr_relaxed(mi_arena_t, &mi_arenas[i]);
    if (ar == NULL) continue;
    uintptr_t s = (uintptr_t)ar->start, e = s + mi_arena_block_size(ar->block_count);
    if (a >= s && b <= e) return 1;
  }
  return 0;
}
static uintptr_t g_live_td, g_live_td_end;     /* metadata of a thread that is alive while the snapshot is taken (workload threads-live) */
static int is_retained_metadata(uintptr_t a, uintptr_t b) {
  if (g_live_td != 0 && a >= (g_live_td & ~(uintptr_t)4095) && b <= ((g_live_td_end + 4095) & ~(uintptr_t)4095)) return 1;
  size_t na = mi_atomic_load_relaxed(&mi_arena_count);
  for (size_t i = 0; i < na; i++) {   /* arena descriptors that did not fit the static area */
    mi_arena_t* ar = mi_atomic_load_ptr_relaxed(mi_arena_t, &mi_arenas[i]);
    if (ar != NULL && mi_memkind_is_os(ar->meta_memid.memkind)) { uintptr_t s = (uintptr_t)ar & ~(uintptr_t)4095, e = ((uintptr_t)ar + ar->meta_size + 4095) & ~(uintptr_t)4095; if (a >= s && b <= e) return 1; }
  }
  for (size_t i = 0; i < MI_SEGMENT_MAP_MAX_PARTS; i++) {   /* segment-map parts: allocated on demand, kept for the process lifetime */
    mi_segmap_part_t* part = mi_atomic_load_ptr_relaxed(mi_segmap_part_t, &mi_segment_map[i]);
    if (part != NULL) { uintptr_t s = (uintptr_t)part & ~(uintptr_t)4095, e = ((uintptr_t)part + sizeof(mi_segmap_part_t) + 4095) & ~(uintptr_t)4095; if (a >= s && b <= e) return 1; }
  }
  return 0;
}
typedef struct snap_s { size_t arena_resident_body; size_t os_bytes; size_t os_regions; size_t arena_resident; size_t total_resident; size_t arena_rw_unpurged; size_t mapped_total; uintptr_t first_os; size_t first_os_len; } snap_t;
static void snap_piece(snap_t* s, const vf_region_t* r, uintptr_t a, uintptr_t b) {
  if (in_arena(a, b)) {
    s->arena_resident += vf_os_resident_bytes(a, b);
    /* the part that is neither the first slice (segment descriptor) nor the last slice (guard page of hardened builds) of a
       segment-sized, segment-aligned unit: see known finding C11 "header slice in reset mode with lazy commit" */
    for (uintptr_t u = a & ~(uintptr_t)(MI_SEGMENT_SIZE - 1); u < b; u += MI_SEGMENT_SIZE) {
      uintptr_t lo = u + MI_SEGMENT_SLICE_SIZE, hi = u + MI_SEGMENT_SIZE - MI_SEGMENT_SLICE_SIZE;
      if (lo < a) lo = a; if (hi > b) hi = b;
      if (lo < hi) s->arena_resident_body += vf_os_resident_bytes(lo, hi);
    }
    if (r->prot == VF_P_RW && !r->purged) s->arena_rw_unpurged += b - a;
  } else if (!is_retained_metadata(a, b)) {
    s->os_bytes += b - a; s->os_regions++;
    if (!s->first_os) { s->first_os = a; s->first_os_len = b - a; }
  }
}
static void take_snapshot(snap_t* s) {
  memset(s, 0, sizeof(*s));
  for (int i = 0; i < vf_os.nregions; i++) {
    const vf_region_t* r = &vf_os.regions[i];
    if (r->adopted) continue;
    s->mapped_total += r->end - r->start;
    /* a mapping can straddle the end of an arena (the untrimmed tail of an over-allocation with the same protection):
       classify the pieces inside and outside the arenas separately */
    uintptr_t cut[2 * MI_MAX_ARENAS + 2]; int nc = 0;
    cut[nc++] = r->start;
    size_t na = mi_atomic_load_relaxed(&mi_arena_count);
    for (size_t k = 0; k < na; k++) {
      mi_arena_t* ar = mi_atomic_load_ptr_relaxed(mi_arena_t, &mi_arenas[k]);
      if (ar == NULL) continue;
      uintptr_t as = (uintptr_t)ar->start, ae = as + mi_arena_block_size(ar->block_count);
      if (as > r->start && as < r->end) cut[nc++] = as;
      if (ae > r->start && ae < r->end) cut[nc++] = ae;
    }
    cut[nc++] = r->end;
    for (int x = 1; x < nc; x++) for (int y = x; y > 0 && cut[y] < cut[y - 1]; y--) { uintptr_t t = cut[y]; cut[y] = cut[y - 1]; cut[y - 1] = t; }
    for (int x = 0; x + 1 < nc; x++) if (cut[x + 1] > cut[x]) snap_piece(s, r, cut[x], cut[x + 1]);
  }
  s->total_resident = vf_os_resident_bytes(0, ~(uintptr_t)0);
}

/* ================================================================================================
 * workloads (shared by footprint and fault): allocate everything, verify, free everything
 * `lenient` != 0: allocation may return NULL (fault phase); blocks that were obtained must still pass the oracles
 * ============================================================================================== */
static int g_lenient = 0;
static int w_alloc(size_t n, size_t align, int zero) {
  void* p = (align ? (zero ? mi_zalloc_aligned(n, align) : mi_malloc_aligned(n, align)) : (zero ? mi_zalloc(n) : mi_malloc(n)));
  if (p == NULL && g_lenient) { VF_INC(counters[1]); return 0; }
  return vf_model_alloc(p, n, align, 0, 0, zero, align ? "mi_malloc_aligned" : "mi_malloc") < 0 ? -1 : 0;
}
static int w_free_all(void) {
  while (vf_nlive > 0) {
    int i = vf_nlive - 1;
    if (vf_model_check_one(i, "before free") != 0) return -1;
    void* p = vf_live[i].p; vf_model_remove_ordered(i); mi_free(p);
  }
  return 0;
}
static int w_free_idx(int i) { if (i >= vf_nlive) return 0; if (vf_model_check_one(i, "before free") != 0) return -1; void* p = vf_live[i].p; vf_model_remove_ordered(i); mi_free(p); return 0; }
typedef struct th_s { int nblocks; size_t size; int keep; void* out[64]; } th_t;
static void* th_main(void* a) {
  th_t* t = (th_t*)a;
  for (int i = 0; i < t->nblocks; i++) { t->out[i] = mi_malloc(t->size); if (t->out[i]) memset(t->out[i], 0x5A, t->size); }
  for (int i = t->keep; i < t->nblocks; i++) { mi_free(t->out[i]); t->out[i] = NULL; }
  return NULL;
}
static const char* wl_names[] = { "small", "large", "huge", "aligned-huge", "threads8", "threads40", "heaps", "realloc", "mixed", "timed", "staggered", "arenas", "hugepages", "threads-live", "strings" };
#define NWL 15
#define NWL_FOOT 11   /* (the arenas workload registers new arenas, which stay by design: fault mode only) */
static pthread_t g_tl_thread; static volatile int g_tl_ready, g_tl_go, g_tl_running;
static void* tl_short(void* a) { void* p = mi_malloc(100); void* q = mi_malloc(8 * KiB); pthread_barrier_wait((pthread_barrier_t*)a); mi_free(p); mi_free(q); return NULL; }
static void* tl_long(void* a) { (void)a; mi_thread_init(); g_live_td = (uintptr_t)mi_heap_get_default(); g_live_td_end = g_live_td + sizeof(mi_thread_data_t);
  __atomic_store_n(&g_tl_ready, 1, __ATOMIC_RELEASE); while (!__atomic_load_n(&g_tl_go, __ATOMIC_ACQUIRE)) usleep(200); return NULL; }
static void tl_release(void) { if (g_tl_running) { __atomic_store_n(&g_tl_go, 1, __ATOMIC_RELEASE); pthread_join(g_tl_thread, NULL); g_tl_running = 0; g_live_td = 0; } }
static int g_pinned_arena;     /* the workload reserved pinned (huge page) memory: it is never purged, by design */
static int run_workload(int w) {
  switch (w) {
    case 0: /* small / medium churn over several pages */
      for (int r = 0; r < 3; r++) { for (int k = 0; k < 40; k++) if (w_alloc(k % 2 ? 48 : 8 * KiB, 0, 0)) return -1; for (int k = 0; k < 12; k++) if (w_alloc(64 * KiB, 0, k & 1)) return -1;
        for (int i = vf_nlive - 1; i >= 0; i -= 2) if (w_free_idx(i)) return -1; }
      return w_free_all();
    case 1: /* large: single-block pages, span split / coalesce, more than one segment */
      for (int k = 0; k < 24; k++) if (w_alloc((k % 3 == 0 ? 100 * KiB : k % 3 == 1 ? 1 * MiB : 3 * MiB), 0, 0)) return -1;
      for (int i = 1; i < vf_nlive; i += 2) if (w_free_idx(i)) return -1;
      for (int k = 0; k < 6; k++) if (w_alloc(2 * MiB, 0, 0)) return -1;
      return w_free_all();
    case 2: /* huge: own segments, multi-arena-block */
      if (w_alloc(17 * MiB, 0, 0) || w_alloc(40 * MiB, 0, 1) || w_alloc(100 * MiB, 0, 0)) return -1;
      if (w_free_idx(1)) return -1;
      if (w_alloc(33 * MiB, 0, 0)) return -1;
      return w_free_all();
    case 3: /* over-aligned huge (alignment > half a segment: dedicated OS allocation with trimmed prefix) */
      if (w_alloc(1 * MiB, 64 * MiB, 0) || w_alloc(48, 64 * MiB, 1) || w_alloc(20 * MiB, 32 * MiB, 0) || w_alloc(100 * KiB, 128 * MiB, 0)) return -1;
      return w_free_all();
    case 4: case 5: { /* threads that exit (thread metadata, abandoned segments, reclaim); 40 > TD cache size of 32 */
      int nth = (w == 4 ? 8 : 40);
      static th_t ts[40];
      /* threads run one after the other (create, join, next): the schedule is owned, so repetitions are comparable */
      for (int i = 0; i < nth; i++) {
        pthread_t th;
        ts[i] = (th_t){ 6, (i & 1) ? 8 * KiB : 200 * KiB, 2, { 0 } };
        if (pthread_create(&th, NULL, th_main, &ts[i]) != 0) { if (g_lenient) { ts[i].nblocks = 0; continue; } vf_sh->infra_error = 1; return -1; }
        pthread_join(th, NULL);
      }
      /* blocks left behind by exited threads stay valid and can be freed by us */
      for (int t = 0; t < nth; t++) for (int i = 0; i < 2 && i < ts[t].nblocks; i++) if (ts[t].out[i]) {
        const uint8_t* q = (const uint8_t*)ts[t].out[i];
        for (size_t k = 0; k < ts[t].size; k += 997) if (q[k] != 0x5A) { VIOL("contents-changed", "block of exited thread %d changed at %zu", t, k); return -1; }
        mi_free(ts[t].out[i]);
      }
      for (int k = 0; k < 10; k++) if (w_alloc(8 * KiB, 0, 0)) return -1;
      return w_free_all();
    }
    case 6: { /* first-class heaps */
      mi_heap_t* h1 = mi_heap_new(); mi_heap_t* h2 = mi_heap_new();
      if (h1 == NULL || h2 == NULL) { if (g_lenient) { if (h1) mi_heap_delete(h1); if (h2) mi_heap_delete(h2); return 0; } VIOL("null-result", "mi_heap_new"); return -1; }
      for (int k = 0; k < 20; k++) { void* p = mi_heap_malloc(h1, k % 2 ? 8 * KiB : 300 * KiB); if (p == NULL && g_lenient) continue; if (vf_model_alloc(p, k % 2 ? 8 * KiB : 300 * KiB, 0, 0, 1, 0, "mi_heap_malloc") < 0) return -1; }
      for (int k = 0; k < 10; k++) { void* p = mi_heap_malloc(h2, 1024); if (p) memset(p, 1, 1024); }
      mi_heap_destroy(h2);
      mi_heap_delete(h1);
      return w_free_all();
    }
    case 7: /* realloc chains */
      for (int k = 0; k < 4; k++) if (w_alloc(100, 0, 0)) return -1;
      for (int step = 0; step < 6; step++) for (int i = 0; i < vf_nlive; i++) {
        vf_blk_t b = vf_live[i]; size_t n = b.req * 7 + 13; if (n > 30 * MiB) n = 30 * MiB;
        void* q = mi_realloc(b.p, n);
        if (q == NULL) { if (g_lenient) { if (vf_model_check_one(i, "after failed realloc") != 0) return -1; continue; } VIOL("null-result", "mi_realloc(%zu)", n); return -1; }
        long bad = vf_pat_check_lim((uint8_t*)q, b.wlen, b.seed, b.req < n ? b.req : n);
        if (bad >= 0) { VIOL("realloc-contents", "realloc %zu -> %zu: byte %ld differs", b.req, n, bad); return -1; }
        vf_model_remove_ordered(i);
        if (vf_model_alloc(q, n, 0, 0, 0, 0, "mi_realloc") < 0) return -1;
        vf_blk_t nb = vf_live[vf_nlive - 1]; memmove(&vf_live[i + 1], &vf_live[i], (size_t)(vf_nlive - 1 - i) * sizeof(vf_blk_t)); vf_live[i] = nb;
      }
      return w_free_all();
    case 10: /* staggered: the upper blocks of an arena are released and force-collected while a lower block is still live, then the rest */
      if (w_alloc(20 * MiB, 0, 0) || w_alloc(100 * MiB, 0, 0) || w_alloc(40 * MiB, 0, 0)) return -1;
      if (w_free_idx(1)) return -1;      /* the 100 MiB block: several arena blocks that do not start at the first one */
      mi_collect(true);
      if (w_free_idx(1)) return -1;      /* the 40 MiB block behind it */
      mi_collect(true);
      return w_free_all();
    case 9: { /* timed: frees spread over the purge delay with non-forced collects in between (two arenas when arenas are small) */
      long d = mi_option_get(mi_option_purge_delay) * mi_option_get(mi_option_arena_purge_mult); if (d <= 0) d = 100;
      if (w_alloc(40 * MiB, 0, 0) || w_alloc(40 * MiB, 0, 0)) return -1;
      if (w_free_idx(0)) return -1;
      vf_os.clock_ms += (d * 6) / 10;
      if (w_free_idx(0)) return -1;
      vf_os.clock_ms += d / 2;          /* the first block's delay has passed, the second one's has not */
      mi_collect(false);                /* ordinary activity in between; the forced collect of the caller follows */
      return 0;
    }
    case 11: { /* arenas: 32 reservations of 32 MiB (the arena descriptors outgrow the static metadata area: later descriptors are one-page OS allocations), then blocks of three kinds */
      for (int i = 0; i < 32; i++) { mi_arena_id_t id; int e = mi_reserve_os_memory_ex(32 * MiB, false, false, false, &id); if (e != 0 && !(g_lenient && e == ENOMEM)) { VIOL("reserve-failed", "mi_reserve_os_memory_ex(32 MiB) #%d returned %d", i, e); return -1; } }
      if (w_alloc(48, 0, 0) || w_alloc(1 * MiB, 0, 1) || w_alloc(17 * MiB, 0, 0)) return -1;
      return w_free_all();
    }
    case 13: { /* threads-live: three threads that are alive together end (their metadata goes to mimalloc's cache), then a thread starts
                  (re-using one cached entry) and stays alive while the caller frees everything and force-collects: the other cached
                  entries are mappings of their own and must be given back by that collect */
      pthread_t th[3]; pthread_barrier_t bar; pthread_barrier_init(&bar, NULL, 3);
      for (int i = 0; i < 3; i++) if (pthread_create(&th[i], NULL, &tl_short, &bar) != 0) { vf_sh->infra_error = 1; return -1; }
      for (int i = 0; i < 3; i++) pthread_join(th[i], NULL);
      pthread_barrier_destroy(&bar);
      g_tl_ready = 0; g_tl_go = 0;
      if (pthread_create(&g_tl_thread, NULL, &tl_long, NULL) != 0) { vf_sh->infra_error = 1; return -1; }
      while (!__atomic_load_n(&g_tl_ready, __ATOMIC_ACQUIRE)) sched_yield();
      g_tl_running = 1;
      return 0;
    }
    case 14: { /* strings: the duplicating entry points (mi_strdup, mi_strndup, mi_heap_strdup, mi_heap_strndup) need fresh memory of three kinds
                  (own huge segment, large page, medium page); a refusal must come back as NULL, never as a store relative to it */
      static char src[17 * MiB + 1];
      static const size_t lens[] = { 17 * MiB, 3 * MiB, 100 * KiB, 48 };
      mi_heap_t* h = mi_heap_get_default();
      for (int v = 0; v < 4; v++) for (int e = 0; e < 4; e++) {
        if (v == 0 && (e == 1 || e == 2)) continue;   /* (the 17 MiB string: mi_strdup and mi_heap_strndup only, to keep the case short) */
        size_t n = lens[v]; memset(src, 'a' + e, n); src[n] = 0;
        size_t want = (e & 1) ? n - 7 : n;     /* (the strndup forms cut the string) */
        char* q = (e == 0 ? mi_strdup(src) : e == 1 ? mi_strndup(src, want) : e == 2 ? mi_heap_strdup(h, src) : mi_heap_strndup(h, src, want));
        if (q == NULL) { if (g_lenient) { VF_INC(counters[1]); continue; } VIOL("null-result", "string duplication of %zu bytes (entry %d)", n, e); return -1; }
        if (strlen(q) != want || memcmp(q, src, want) != 0) { VIOL("contents-changed", "string duplicate of %zu bytes (entry %d) differs from its source", want, e); return -1; }
        if (vf_model_alloc(q, want + 1, 0, 0, 0, 0, "mi_strdup") < 0) return -1;
        if (v < 2 && (e & 1)) { if (w_free_idx(vf_nlive - 1)) return -1; }   /* (keeps the footprint of the case small) */
      }
      return w_free_all();
    }
    case 12: { /* hugepages: mi_reserve_huge_os_pages_at(3 x 1 GiB) -- the modelled OS grants such mappings for the duration of the call (ordinary untouched memory) --
                  then 40 blocks of 30 MiB (more than one of the three pages), only their first and last byte touched */
      g_pinned_arena = 1;
      vf_os.grant_hugetlb = 1; (void)mi_reserve_huge_os_pages_at(3, -1, 0); vf_os.grant_hugetlb = 0;
      static uint8_t* big[40]; int nb = 0;
      for (int i = 0; i < 40; i++) {
        uint8_t* p = (uint8_t*)mi_malloc(30 * MiB);
        if (p == NULL) { if (g_lenient) { vf_err_count = 0; break; } VIOL("null-result", "mi_malloc(30 MiB) returned NULL"); return -1; }
        if (!vf_os_accessible(p, 30 * MiB)) { VIOL("inaccessible", "mi_malloc(30 MiB) = %p is not inside accessible memory (block %d after a reservation of huge OS pages)", (void*)p, i); return -1; }
        p[0] = 1; p[30 * MiB - 1] = 2; big[nb++] = p;
      }
      for (int i = 0; i < nb; i++) { if (big[i][0] != 1 || big[i][30 * MiB - 1] != 2) { VIOL("contents-changed", "30 MiB block %d changed", i); return -1; } mi_free(big[i]); }
      return 0;
    }
    case 8: /* mixed */
      if (w_alloc(48, 0, 0) || w_alloc(8 * KiB, 0, 1) || w_alloc(1 * MiB, 0, 0) || w_alloc(17 * MiB, 0, 0) || w_alloc(64 * KiB, 4096, 0) || w_alloc(100 * KiB, 64 * MiB, 0)) return -1;
      if (w_free_idx(2)) return -1;
      mi_collect(false);
      if (w_alloc(2 * MiB, 0, 0)) return -1;
      return w_free_all();
  }
  return 0;
}

/* ================================================================================================
 * C11 footprint
 * ============================================================================================== */
#define NREP 4
static void footprint_case(long w);
static void footprint_case_ix(long k) { footprint_case(k < NWL_FOOT ? k : 13); }   /* the footprint workloads: 0..10 and threads-live */
static void footprint_case(long w) {
  snprintf(g_case_desc, sizeof(g_case_desc), "footprint workload=%s", wl_names[w]);
  snprintf(g_case_tag, sizeof(g_case_tag), "%s", wl_names[w]);
  snap_t base, s[NREP + 1];
  mi_collect(true);
  take_snapshot(&base);
  long purge_delay = mi_option_get(mi_option_purge_delay);
  for (int r = 1; r <= NREP; r++) {
    VF_INC(nodes);
    if (run_workload((int)w) != 0) return;
    mi_collect(true);
    VF_INC(transitions);
    take_snapshot(&s[r]);
    tl_release();                         /* (workload threads-live: its last thread was alive until here) */
    VF_INC(checks);
    /* oracle 1: nothing obtained directly from the OS survives */
    if (s[r].os_bytes > base.os_bytes) {
      VIOL("os-region-not-unmapped", "after free-all + mi_collect(true) (repetition %d) %zu bytes in %zu regions obtained directly from the OS are still mapped (baseline %zu bytes); first: [%p,+%zu)",
           r, s[r].os_bytes, s[r].os_regions, base.os_bytes, (void*)s[r].first_os, s[r].first_os_len);
      return;
    }
    /* unless purging is disabled, arena memory is no longer committed (= holds no resident pages) */
    if (purge_delay >= 0 && s[r].arena_resident > base.arena_resident) {
      if (vf_verbose && purge_delay >= 0 && s[r].arena_resident > base.arena_resident) vf_os_dump(2);
      if (s[r].arena_resident_body <= base.arena_resident_body)
        VIOL("arena-descriptor-slice-still-committed", "after free-all + mi_collect(true) (repetition %d) %zu bytes of arena memory are still resident (baseline %zu), all of them in the first (descriptor) or last (guard) 64 KiB slice of a freed segment", r, s[r].arena_resident, base.arena_resident);
      else
      VIOL("arena-still-committed", "after free-all + mi_collect(true) (repetition %d) %zu bytes of arena memory are still resident (baseline %zu)", r, s[r].arena_resident, base.arena_resident);
      return;
    }
    /* oracle 2: no growth from one repetition to the next */
    if (r >= 2) {
      if (s[r].mapped_total > s[r - 1].mapped_total) { VIOL("mapped-grows", "mapped memory grows from repetition %d to %d: %zu -> %zu bytes", r - 1, r, s[r - 1].mapped_total, s[r].mapped_total); return; }
      /* with purging disabled by option nothing is ever given back, so residency only reflects which of the already mapped
         pages a repetition happens to touch (randomised free lists in secure builds touch different ones): only mapped
         memory is compared then */
      if (purge_delay >= 0 && s[r].total_resident > s[r - 1].total_resident + 64 * KiB) { VIOL("resident-grows", "resident memory grows from repetition %d to %d: %zu -> %zu bytes", r - 1, r, s[r - 1].total_resident, s[r].total_resident); return; }
    }
  }
  if (s[NREP].mapped_total == s[NREP - 1].mapped_total) VF_INC(nontrivial);
  vf_sample("%s: mapped after rep1..4 = %zu %zu %zu %zu, OS-direct bytes left %zu, arena resident %zu", g_case_desc, s[1].mapped_total, s[2].mapped_total, s[3].mapped_total, s[4].mapped_total, s[NREP].os_bytes, s[NREP].arena_resident);
}

/* ================================================================================================
 * C18 purge scenarios
 * ============================================================================================== */
static long g_mark;   /* OS call index of the event (the moment the memory became unused) */
/* bytes of [lo,hi) covered by calls since `mark` that give memory back: madvise(DONTNEED/FREE) (decommit/reset; debug and
   secure builds add an mprotect(PROT_NONE) for the same range, counted once) and, if `with_unmap`, munmap (segments that
   came directly from the OS are unmapped as a whole, which also returns them). Ranges of distinct calls do not repeat
   within one scenario, so clipped lengths are summed. */
static size_t returned_bytes_in(uintptr_t lo, uintptr_t hi, long mark, int with_unmap) {
  size_t n = 0;
  for (long k = mark; k < vf_os.ncalls && k < VF_MAX_CALLS; k++) {
    const vf_call_t* c = &vf_os.calls[k];
    if (c->failed) continue;
    if (!(c->kind == VF_C_MADVISE || (with_unmap && c->kind == VF_C_MUNMAP))) continue;
    uintptr_t a = c->addr > lo ? c->addr : lo, b = (c->addr + c->len) < hi ? (c->addr + c->len) : hi;
    if (a < b) n += b - a;
  }
  return n;
}
static size_t purged_bytes_in(uintptr_t lo, uintptr_t hi) { return returned_bytes_in(lo, hi, g_mark, 0); }
static long purge_calls_since(long mark) {
  long n = 0;
  for (long k = mark; k < vf_os.ncalls && k < VF_MAX_CALLS; k++) { const vf_call_t* c = &vf_os.calls[k]; if (c->kind == VF_C_MADVISE || (c->kind == VF_C_MPROTECT && c->arg == PROT_NONE)) n++; }
  return n;
}
enum { U_PAGE = 0, U_SEGMENT = 1, U_ALL = 2, U_MULTI = 3, U_CHURN = 4, U_ARENAS = 5, U_ABANDONED = 6, U_RETIRED = 7, U_STRADDLE = 8, NUNUSED = 9 };
enum { A_FREE_OTHER_PAGE = 0, A_ALLOC_PAGE = 1, A_HUGE_ALLOC_FREE = 2, A_COLLECT = 3, A_FASTPATH = 4, NACT = 5 };
static const char* u_names[] = { "page-in-live-segment", "whole-segment", "everything", "several-pages-of-one-segment", "several-pages-one-of-them-reused-repeatedly", "four-huge-segments-possibly-in-four-arenas", "page-of-an-abandoned-segment-freed-by-another-thread", "last-page-of-a-size-class-(retired)", "huge-segment-straddling-two-bitmap-fields-of-a-4GiB-arena" };
static const char* a_names[] = { "free-other-page", "alloc-page-in-segment", "alloc+free-17MiB", "collect(false)", "small-fast-path-only" };
#include <pthread.h>
static uint8_t* g_ab_blk[2];
static void* ab_thread(void* a) { (void)a; for (int i = 0; i < 2; i++) { g_ab_blk[i] = (uint8_t*)mi_malloc(1 * MiB); if (g_ab_blk[i]) memset(g_ab_blk[i], 9 + i, 1 * MiB); } return NULL; }
static void purge_case(long k) {
  int U = (int)(k / NACT), A = (int)(k % NACT);
  long d = mi_option_get(mi_option_purge_delay), mult = mi_option_get(mi_option_arena_purge_mult);
  snprintf(g_case_desc, sizeof(g_case_desc), "purge unused=%s activity=%s delay=%ld mult=%ld decommits=%ld", u_names[U], a_names[A], d, mult, mi_option_get(mi_option_purge_decommits));
  snprintf(g_case_tag, sizeof(g_case_tag), "%s/%s", u_names[U], a_names[A]);
  VF_INC(nodes);
  /* set-up: warm small pages (for the fast-path control), three 1 MiB pages in one segment, one more block elsewhere */
  void* small[8]; for (int i = 0; i < 8; i++) small[i] = mi_malloc(64);
  uint8_t* pa = (uint8_t*)mi_malloc(1 * MiB); uint8_t* pb = (uint8_t*)mi_malloc(1 * MiB); uint8_t* pc = (uint8_t*)mi_malloc(1 * MiB);
  uint8_t* hu = NULL;
  if (!pa || !pb || !pc) { VIOL("null-result", "set-up allocation failed"); return; }
  memset(pa, 1, MiB); memset(pb, 2, MiB); memset(pc, 3, MiB);
  if (_mi_ptr_segment(pa) != _mi_ptr_segment(pb) || _mi_ptr_segment(pb) != _mi_ptr_segment(pc)) { vf_sh->infra_error = 1; fprintf(stderr, "set-up: pages not in one segment\n"); return; }
  uintptr_t lo, hi; long expiry;
  /* U_MULTI: nine more 1 MiB pages in the same segment; four non-adjacent ones (spread over several 64-slice fields of the
     segment's purge mask) become unused together */
  uint8_t* more[9]; uintptr_t mlo[4], mhi[4]; int nm = 0;
  long churn = 0, ext = mi_option_get(mi_option_purge_extend_delay);
  if (U == U_CHURN) { if (d > ext && d > 0) { churn = (d + 1000) / (d - ext) + 2; U = U_MULTI; } else { VF_INC(nontrivial); return; } }   /* (with delay <= extend delay re-use cannot postpone anything) */
  if (U == U_MULTI) {
    for (int i = 0; i < 9; i++) { more[i] = (uint8_t*)mi_malloc(1 * MiB); if (!more[i]) { VIOL("null-result", "set-up"); return; } memset(more[i], 5 + i, MiB);
      if (_mi_ptr_segment(more[i]) != _mi_ptr_segment(pa)) { vf_sh->infra_error = 1; fprintf(stderr, "set-up: pages not in one segment\n"); return; } }
  }
  if (U == U_ABANDONED) { pthread_t th; g_ab_blk[0] = g_ab_blk[1] = NULL; if (pthread_create(&th, NULL, &ab_thread, NULL) != 0) { vf_sh->infra_error = 1; return; } pthread_join(th, NULL); if (!g_ab_blk[0] || !g_ab_blk[1]) { VIOL("null-result", "set-up"); return; } }
  uint8_t* rt[4] = { NULL, NULL, NULL, NULL };
  if (U == U_RETIRED) { for (int i = 0; i < 4; i++) { rt[i] = (uint8_t*)mi_malloc(32 * KiB); if (!rt[i]) { VIOL("null-result", "set-up"); return; } memset(rt[i], 6, 32 * KiB); }
    if (_mi_ptr_page(rt[0]) != _mi_ptr_page(rt[3]) || _mi_ptr_segment(rt[0]) != _mi_ptr_segment(pa)) { vf_sh->infra_error = 1; fprintf(stderr, "set-up: retired-page geometry\n"); return; } }
  uint8_t* hus[4] = { NULL, NULL, NULL, NULL };
  if (U == U_ARENAS) for (int i = 0; i < 4; i++) { hus[i] = (uint8_t*)mi_malloc(40 * MiB); if (!hus[i]) { VIOL("null-result", "set-up"); return; } memset(hus[i], 7 + i, 40 * MiB); }
  size_t hu_size = 17 * MiB;
  if (U == U_STRADDLE) {
    /* needs an arena of more than 64 blocks (run with MIMALLOC_ARENA_RESERVE=4GiB): a 1950 MiB filler (address space only) takes arena
       blocks 1..61, the 80 MiB block then lies in blocks 62..64, across the boundary of the arena's first two bitmap fields */
    mi_arena_t* ar = mi_atomic_load_ptr_relaxed(mi_arena_t, &mi_arenas[0]);
    if (ar == NULL || ar->block_count < 96) { VF_INC(nontrivial); return; }
    void* filler = mi_malloc((size_t)1950 * MiB); hu_size = 80 * MiB;
    hu = (uint8_t*)mi_malloc(hu_size);
    if (!filler || !hu) { VIOL("null-result", "set-up"); return; }
    size_t b0 = (size_t)((uintptr_t)hu - (uintptr_t)ar->start) / MI_ARENA_BLOCK_SIZE, b1 = (size_t)((uintptr_t)hu + hu_size - 1 - (uintptr_t)ar->start) / MI_ARENA_BLOCK_SIZE;
    if ((uintptr_t)hu < (uintptr_t)ar->start || b0 / 64 == b1 / 64) { vf_sh->infra_error = 1; fprintf(stderr, "set-up: the 80 MiB block does not straddle two bitmap fields (arena blocks %zu..%zu)\n", b0, b1); return; }
    for (size_t o = 0; o < hu_size; o += 4096) hu[o] = 4;
    U = U_SEGMENT;
  }
  else if (U == U_SEGMENT) { hu = (uint8_t*)mi_malloc(17 * MiB); if (!hu) { VIOL("null-result", "set-up"); return; } memset(hu, 4, 17 * MiB); }
  g_mark = vf_os.ncalls;
  int64_t T0 = vf_os.clock_ms;
  /* the event: something becomes unused at T0 */
  if (U == U_PAGE)         { lo = (uintptr_t)pb; hi = lo + 1 * MiB; mi_free(pb); pb = NULL; }
  else if (U == U_SEGMENT) { lo = (uintptr_t)hu; hi = lo + hu_size; mi_free(hu); hu = NULL; }
  else if (U == U_ABANDONED) { lo = (uintptr_t)g_ab_blk[1]; hi = lo + 1 * MiB; mi_free(g_ab_blk[1]); }   /* the page's owner is gone: its segment is abandoned, the other block of it stays live */
  else if (U == U_RETIRED) {
    /* the only page of its size class becomes empty: mimalloc keeps ("retires") it for a few cycles; every allocation of a fresh page
       counts one cycle down, after which the page is released (here: six fresh pages of other classes; the cycle count is 4) */
    size_t psize = 0; lo = (uintptr_t)_mi_segment_page_start(_mi_ptr_segment(rt[0]), _mi_ptr_page(rt[0]), &psize); hi = lo + psize;
    lo = (lo + 65535) & ~(uintptr_t)65535; hi &= ~(uintptr_t)65535;
    for (int i = 0; i < 4; i++) mi_free(rt[i]);
    /* (the fresh pages are small ones: from the fourth on they are carved from the front of the released span -- best fit --
       so only the back half of the page's range is examined) */
    static const size_t other[6] = { 1 * KiB, 2 * KiB, 3 * KiB, 4 * KiB, 5 * KiB, 6 * KiB };
    for (int i = 0; i < 6; i++) { void* t = mi_malloc(other[i]); if (!t) { VIOL("null-result", "activity"); return; } }
    lo += 256 * KiB;
    T0 = vf_os.clock_ms;
  }
  else if (U == U_ARENAS) { for (int i = 0; i < 4; i++) { mlo[i] = (uintptr_t)hus[i]; mhi[i] = mlo[i] + 40 * MiB; mi_free(hus[i]); } nm = 4; lo = mlo[0]; hi = mhi[0]; }
  else if (U == U_MULTI) {
    uint8_t* f[4] = { pb, more[0], more[3], more[6] };     /* pages #1, #3, #6, #9 of the segment */
    for (int i = 0; i < 4; i++) { mlo[i] = (uintptr_t)f[i]; mhi[i] = mlo[i] + 1 * MiB; mi_free(f[i]); } nm = 4;
    pb = NULL; lo = mlo[0]; hi = mhi[0];
    /* U_CHURN: before any time passes one of the unused spans is taken and released again `churn` times: each re-use re-arms
       the segment's expiry to now + delay (and each release may extend it by the extend delay), it must not accumulate */
    for (long c = 0; c < churn; c++) { void* t = mi_malloc(1 * MiB); if (!t) { VIOL("null-result", "churn"); return; } mi_free(t); }
  }
  else { lo = (uintptr_t)pa; hi = (uintptr_t)pc + 1 * MiB; mi_free(pa); mi_free(pb); mi_free(pc); pa = pb = pc = NULL; for (int i = 0; i < 8; i++) { mi_free(small[i]); small[i] = NULL; } }
  VF_INC(transitions); VF_INC(checks);
  size_t span = hi - lo;
  size_t need = (U == U_RETIRED ? span : span - 192 * KiB);            /* conservative (inner) rounding may leave out up to a slice at each end (retired page: slice-aligned range) */
  if (d < 0) {
    /* never purged, not even by a forced collect */
    vf_os.clock_ms += 100000; mi_collect(false); mi_collect(true);
    vf_sample("%s: %ld purge calls", g_case_desc, purge_calls_since(g_mark));
    if (purge_calls_since(g_mark) > 0) { VIOL("purge-when-disabled", "purge_delay=-1 but %ld purge calls were issued", purge_calls_since(g_mark)); return; }
    VF_INC(nontrivial); return;
  }
  if (d == 0) {
    if (U == U_ABANDONED) mi_collect(false);   /* (nobody owns the page: it is released -- and with delay 0 purged -- when a collect visits the abandoned segment) */
    for (int i = 1; i < nm; i++) { size_t g = returned_bytes_in(mlo[i], mhi[i], g_mark, 1); if (g < need) { VIOL("not-purged-immediately", "purge_delay=0: only %zu of %zu bytes of unused page %d were returned at once", g, span, i + 1); return; } }
    size_t got = returned_bytes_in(lo, hi, g_mark, 1);
    /* with delay 0 the memory is returned as soon as it becomes unused. For "everything" the small pages may be retired
       (kept for a few cycles) so only the large-page range is examined */
    vf_sample("%s: returned %zu of %zu bytes at once", g_case_desc, got, span);
    if (got < need) { VIOL("not-purged-immediately", "purge_delay=0: only %zu of %zu bytes of the freed range were purged before the freeing call returned", got, span); return; }
    VF_INC(nontrivial); return;
  }
  /* Expiry: a page inside a live segment is due after `delay`; a segment that was returned to its arena after
     `delay * arena_purge_mult`. For "everything" the 1 MiB pages share their segment with retired small pages: the
     segment only goes back to the arena at the first collect, and the arena delay counts from then. */
  expiry = ((U == U_SEGMENT || U == U_ARENAS) ? d * mult : d);
  /* (1) before the delay has passed nothing of the range is purged, whatever ordinary activity happens */
  vf_os.clock_ms = T0 + expiry - 1;
  if (U == U_ALL) { mi_collect(false); }
  else if (U == U_RETIRED) { void* s2 = mi_malloc(64); mi_free(s2); }   /* (no collect here: a collect releases every empty page, retired or not; this kind is about ordinary activity alone) */
  else { mi_collect(false); void* s2 = mi_malloc(64); mi_free(s2); }
  { size_t got = purged_bytes_in(lo, hi); if (got > 0) { VIOL("purged-too-early", "%zu bytes of the unused range were purged %ld ms after it became unused (delay %ld ms)", got, (long)(vf_os.clock_ms - T0), expiry); return; } }
  /* (2) after the delay has passed, ordinary activity returns it (no forced collect) */
  int64_t T1 = vf_os.clock_ms;
  if (U == U_ALL) { expiry = d * mult; vf_os.clock_ms = T1 + expiry + 1000; T0 = T1; }
  else if (U == U_ABANDONED) { vf_os.clock_ms = T1 + expiry + 1000; T0 = T1; }   /* (the collect of phase 1 visited the abandoned segment and released the page: the delay runs from there) */
  else vf_os.clock_ms = T0 + expiry + 1000 + churn * (ext > 0 ? ext : 0);
  int expect = 0; uint8_t* pc_addr = NULL;
  switch (A) {
    /* page in a live segment: the segment's purge point is reached when another page of it is freed. (Allocating in
       the segment re-arms the delay by design -- "we assume more allocations are coming soon" -- so it is a control.) */
    case A_FREE_OTHER_PAGE: if (U == U_PAGE || U == U_MULTI || U == U_RETIRED) { pc_addr = pc; mi_free(pc); pc = NULL; expect = 1; } else { void* t = mi_malloc(64); mi_free(t); expect = 0; } break;
    case A_ALLOC_PAGE:      { void* t = mi_malloc(300 * KiB); (void)t; expect = 0; break; }
    /* whole segments: the arena's purge point is reached by any arena free and by a non-forced collect */
    case A_HUGE_ALLOC_FREE: { void* t = mi_malloc(40 * MiB); mi_free(t); expect = (U == U_SEGMENT || U == U_ALL); break; }
    /* (a non-forced pass purges at most two arenas and stays armed for the rest, one pass per delay period: three passes,
       a delay period apart, reach four arenas) */
    case A_COLLECT:         mi_collect(false); if (U == U_ABANDONED) expect = 1; if (U == U_ARENAS) { vf_os.clock_ms += expiry + 1; mi_collect(false); vf_os.clock_ms += expiry + 1; mi_collect(false); } expect = (U == U_SEGMENT || U == U_ALL || U == U_ARENAS || U == U_ABANDONED); break;
    case A_FASTPATH:        { void* t = mi_malloc(64); mi_free(t); expect = 0; break; }
  }
  size_t got = returned_bytes_in(lo, hi, g_mark, 1);   /* cumulative since the event; an immediate munmap counts */
  if (expect && (U == U_MULTI || U == U_ARENAS)) {
    if (U == U_ARENAS) need = span - 192 * KiB;
    for (int i = 0; i < nm; i++) {
      size_t g = returned_bytes_in(mlo[i], mhi[i], g_mark, 1);
      if (g < need) { VIOL("not-purged-after-delay", "%ld ms after becoming unused (delay %ld ms) activity '%s' returned only %zu of %zu bytes of unused page %d of 4 (no forced collect)", (long)(vf_os.clock_ms - T0), expiry, a_names[A], g, span, i + 1); return; }
    }
  }
  /* (3) the page released by the activity itself is unused from now on: at the latest a forced collect gives it back */
  if (A == A_FREE_OTHER_PAGE && (U == U_PAGE || U == U_MULTI) && churn == 0) {
    uintptr_t clo = (uintptr_t)pc_addr, chi = clo + 1 * MiB;
    vf_os.clock_ms += expiry + 1000;
    mi_collect(true);
    size_t g3 = returned_bytes_in(clo, chi, g_mark, 1);
    VF_INC(checks);
    if (g3 < 1 * MiB - 192 * KiB) { VIOL("not-purged-by-forced-collect", "the page released %ld ms ago by the activity itself is still not given back after mi_collect(true): %zu of %zu bytes returned", (long)(expiry + 1000), g3, (size_t)(1 * MiB)); return; }
  }
  if (expect) {
    size_t want = need;
    vf_sample("%s: returned %zu of %zu bytes after the delay", g_case_desc, got, span);
    if (got < want) { VIOL("not-purged-after-delay", "%ld ms after becoming unused (delay %ld ms) activity '%s' purged only %zu of %zu bytes (no forced collect)", (long)(vf_os.clock_ms - T0), expiry, a_names[A], got, span); return; }
    VF_INC(nontrivial);
  } else {
    VF_ADD(counters[2], got > 0 ? 1 : 0);   /* control: this activity is not required to purge; recorded only */
  }
}

/* ================================================================================================
 * C07 fault enumeration
 * ============================================================================================== */
#define NPLAN 6   /* 0: single failure at k; 1..4: persistent failure from k of mmap / mprotect / madvise / munmap; 5: persistent, all kinds */
static const char* plan_names[] = { "single", "persist-mmap", "persist-mprotect", "persist-madvise", "persist-munmap", "persist-all" };
static int g_wl_fault[] = { 0, 1, 2, 3, 4, 6, 7, 8, 11, 12, 14 };   /* (new workloads go at the end: replay files carry case numbers) */
#define NWLF 11
typedef struct fcase_s { int w; int plan; long k; long k2; } fcase_t;
static fcase_t* g_fcases; static long g_nfcases;
static long g_dry_calls[NWL];
static uint8_t (*g_dry_kinds)[512];   /* shared: kind of the k-th OS call of each workload in the fault-free run */
static int fault_err_ok(int e) { return e == ENOMEM || e == EOVERFLOW; }
static volatile int g_bad_err;
static void fault_error_cb(int err, void* arg) { (void)arg; if (!fault_err_ok(err)) g_bad_err = err; }
static void recovery_and_quiescence(snap_t* base) {
  g_lenient = 0; vf_os_plan_clear();
  /* once the OS grants requests again the allocator is fully usable */
  static const size_t cls[] = { 8, 48, 1024, 8 * KiB, 64 * KiB, 300 * KiB, 3 * MiB, 17 * MiB };
  for (int r = 0; r < 2; r++) for (int c = 0; c < 8; c++) for (int k = 0; k < (cls[c] > MiB ? 2 : 12); k++) if (w_alloc(cls[c], 0, k & 1)) return;
  if (w_free_all()) return;
  mi_collect(true);
  snap_t s; take_snapshot(&s);
  VF_INC(checks);
  /* and still gives back everything; regions whose munmap was refused by the plan cannot be expected to vanish */
  size_t refused = 0;
  for (long k = 0; k < vf_os.ncalls && k < VF_MAX_CALLS; k++) if (vf_os.calls[k].kind == VF_C_MUNMAP && vf_os.calls[k].failed) refused += (vf_os.calls[k].len + 4095) & ~(size_t)4095;
  if (s.os_bytes > base->os_bytes + refused && vf_verbose) vf_os_dump(2);
  /* arena memory is given back too (as in the fault-free runs of C11) -- unless a purge request itself was refused in this case
     (what could not be purged then is not purged again later) or purging is off */
  { long refused_purges = 0;
    for (long k = 0; k < vf_os.ncalls && k < VF_MAX_CALLS; k++) if (vf_os.calls[k].failed && (vf_os.calls[k].kind == VF_C_MADVISE || (vf_os.calls[k].kind == VF_C_MPROTECT && vf_os.calls[k].arg == PROT_NONE))) refused_purges++;
    /* (a purge by reset only makes the pages reclaimable: they count as given back only when the modelled OS drops them at once) */
    const int purge_gives_back = (mi_option_is_enabled(mi_option_purge_decommits) || vf_os.reset_zero);
    if (refused_purges == 0 && purge_gives_back && !g_pinned_arena && mi_option_get(mi_option_purge_delay) >= 0 && s.arena_resident_body > base->arena_resident_body) {
      VIOL("arena-still-committed-after-recovery", "after recovery + free-all + mi_collect(true): %zu bytes of arena memory (beyond segment descriptor slices) are still resident (baseline %zu) although no purge request was refused", s.arena_resident_body, base->arena_resident_body);
      return;
    }
  }
  if (s.os_bytes > base->os_bytes + refused) {
    /* classify: is everything that is left a whole segment straight from the OS that holds no page at all (known finding C07:
       obtained after a refused commit elsewhere, never used because the retry succeeded in the old segment, and segments are
       only released when their last page is freed)? */
    size_t unused_seg_bytes = 0;
    for (int i = 0; i < vf_os.nregions; i++) {
      const vf_region_t* r = &vf_os.regions[i];
      if (r->adopted || in_arena(r->start, r->end) || is_retained_metadata(r->start, r->end)) continue;
      uintptr_t sb = r->start & ~(uintptr_t)(MI_SEGMENT_SIZE - 1);
      int unused = 0;
      if (vf_os_accessible((void*)sb, sizeof(mi_segment_t))) { const mi_segment_t* seg = (const mi_segment_t*)sb; unused = (seg->cookie == _mi_ptr_cookie(seg) && seg->used == 0 && seg->kind == MI_SEGMENT_NORMAL && r->end <= sb + MI_SEGMENT_SIZE); }
      if (unused) unused_seg_bytes += r->end - r->start;
    }
    if (unused_seg_bytes >= s.os_bytes - base->os_bytes - refused)
      VIOL("fresh-segment-never-used-kept", "after recovery + free-all + mi_collect(true): %zu bytes obtained directly from the OS are still mapped: whole segment(s) that hold no page (obtained after a refused commit, then not needed because the retry succeeded elsewhere); first [%p,+%zu)", s.os_bytes, (void*)s.first_os, s.first_os_len);
    else
    { VIOL("os-region-not-unmapped", "after recovery + free-all + mi_collect(true): %zu bytes obtained directly from the OS are still mapped (baseline %zu, refused munmaps %zu); first [%p,+%zu)", s.os_bytes, base->os_bytes, refused, (void*)s.first_os, s.first_os_len); return; }
  }
}
static void fault_case(long ci) {
  fcase_t fc = g_fcases[ci];
  snprintf(g_case_desc, sizeof(g_case_desc), "fault workload=%s plan=%s k=%ld%s", wl_names[fc.w], plan_names[fc.plan], fc.k, fc.k2 >= 0 ? " (+second failure)" : "");
  if (fc.k2 >= 0) snprintf(g_case_desc + strlen(g_case_desc), 40, " k2=%ld", fc.k2);
  vf_path[0].a = ci;
  snprintf(g_case_tag, sizeof(g_case_tag), "%s/%s", wl_names[fc.w], plan_names[fc.plan]);
  if (vf_verbose) fprintf(stderr, "CASE %s\n", g_case_desc);
  VF_INC(nodes);
  mi_register_error(&fault_error_cb, NULL);
  snap_t base; mi_collect(true); take_snapshot(&base);
  long c0 = vf_os.ncalls;
  vf_os_plan_clear();
#if MI_DEBUG
  /* debug builds abort by design on a failing decommit: a second failure whose index lands on a madvise (the first failure
     changed the call sequence) is not injected */
  vf_os.never_fail_kinds = (1u << VF_C_MADVISE);
#endif
  if (fc.plan == 0) { vf_os.fail_at[0] = c0 + fc.k; if (fc.k2 >= 0) vf_os.fail_at[1] = c0 + fc.k2; }
  else { vf_os.fail_from = c0 + fc.k; static const int plan_kind[] = { 0, VF_C_MMAP, VF_C_MPROTECT, VF_C_MADVISE, VF_C_MUNMAP }; vf_os.fail_kinds = (fc.plan == 5 ? 0xF : (1u << plan_kind[fc.plan])); }
  g_lenient = 1;
  int r = run_workload(fc.w);
  VF_INC(transitions);
  if (vf_os.nfailed > 0) VF_INC(nontrivial);
  if (vf_os.nfailed > 0 && (ci % 97) == 0) vf_sample("%s: %ld OS calls refused, %ld API calls returned NULL", g_case_desc, vf_os.nfailed, vf_sh->counters[1]);
  if (r != 0) return;
  if (g_bad_err) { VIOL("error-callback", "mimalloc reported error %d (not an out-of-memory report) under the fault plan", g_bad_err); return; }
  recovery_and_quiescence(&base);
  if (g_bad_err) { VIOL("error-callback", "mimalloc reported error %d during recovery", g_bad_err); return; }
}
static void fault_dry(long wi) {
  int w = g_wl_fault[wi];
  mi_collect(true);
  long c0 = vf_os.ncalls;
  g_lenient = 0;
  snprintf(g_case_desc, sizeof(g_case_desc), "fault dry-run workload=%s", wl_names[w]);
  if (run_workload(w) != 0) return;
  mi_collect(true);
  g_dry_calls[w] = vf_os.ncalls - c0;
  for (long k = 0; k < g_dry_calls[w] && k < 512; k++) g_dry_kinds[w][k] = vf_os.calls[c0 + k].kind;
}

/* ---------------- driver ------------------------------------------------------------------------ */
int main(int argc, char** argv) {
  vf_prop = vf_arg(argc, argv, "--prop", "C11");
  vf_outdir = vf_arg(argc, argv, "--outdir", "/verif");
  g_mode = vf_arg(argc, argv, "--mode", "footprint");
  g_pairs = vf_flag(argc, argv, "--pairs");
  g_only_wl = vf_arg(argc, argv, "--only-workload", NULL);
  const char* out = vf_arg(argc, argv, "--out", NULL);
  const char* replay = vf_arg(argc, argv, "--replay", NULL);
  vf_verbose = vf_flag(argc, argv, "-v");
  if (vf_verbose) vf_install_crash_handler();
  vf_shared_init(atof(vf_arg(argc, argv, "--deadline", "900")));
  if (!vf_verbose) mi_register_output(&vf_out_null, NULL);
  mi_register_error(&vf_error_cb, NULL);
  if (replay) {
    if (vf_load_replay(replay) < 0) return 2;
    char m[32] = "footprint"; int pairs = 0;
    sscanf(vf_cfg, "%31s pairs=%d", m, &pairs);
    g_mode = strdup(m); g_pairs = pairs; g_replay_case = vf_path[0].a;
  }
  snprintf(vf_cfg, sizeof(vf_cfg), "%s pairs=%d", g_mode, g_pairs);
  (void)mi_heap_get_default();
  long ncases = 0; case_fn fn = NULL;
  /* dry runs are needed in-process for the fault mode (results land in copy-on-write memory: use shared memory) */
  long* shared_dry = (long*)mmap(NULL, sizeof(long) * NWL, PROT_READ | PROT_WRITE, MAP_SHARED | MAP_ANONYMOUS, -1, 0);
  g_dry_kinds = (uint8_t (*)[512])mmap(NULL, 512 * NWL, PROT_READ | PROT_WRITE, MAP_SHARED | MAP_ANONYMOUS, -1, 0);
  if (strcmp(g_mode, "footprint") == 0) { ncases = NWL_FOOT + 1; fn = footprint_case_ix; }
  else if (strcmp(g_mode, "purge") == 0) { ncases = NUNUSED * NACT; fn = purge_case; }
  else if (strcmp(g_mode, "fault") == 0) {
    for (int wi = 0; wi < NWLF; wi++) {
      pid_t pid = fork();
      if (pid == 0) { fault_dry(wi); shared_dry[g_wl_fault[wi]] = g_dry_calls[g_wl_fault[wi]]; _exit(vf_sh->nviol > 0 ? 1 : 0); }
      int st = 0; waitpid(pid, &st, 0);
      if (!(WIFEXITED(st) && WEXITSTATUS(st) == 0)) { snprintf(g_case_desc, sizeof(g_case_desc), "fault dry-run workload=%s", wl_names[g_wl_fault[wi]]); vf_path[0].a = -1; vf_depth = 1; if (vf_sh->nviol == 0) VIOL("crash", "dry run died (status 0x%x)", st); }
    }
    long total = 0;
    for (int wi = 0; wi < NWLF; wi++) { long n = shared_dry[g_wl_fault[wi]]; total += n * NPLAN; if (g_pairs) total += n * (n - 1) / 2; }
    g_fcases = (fcase_t*)mmap(NULL, sizeof(fcase_t) * (size_t)(total + 1), PROT_READ | PROT_WRITE, MAP_PRIVATE | MAP_ANONYMOUS, -1, 0);
    for (int wi = 0; wi < NWLF; wi++) {
      int w = g_wl_fault[wi]; long n = shared_dry[w];
      if (g_only_wl && strcmp(g_only_wl, wl_names[w]) != 0) continue;
      if (w == 12 && g_only_wl == NULL) continue;      /* (the huge-page workload runs in jobs of its own: --only-workload hugepages) */
      for (int p = 0; p < NPLAN; p++) for (long k = 0; k < n; k++) {
#if MI_DEBUG
        /* debug builds abort by design on a failing decommit (mi_assert_internal(err == 0) in mi_os_decommit_ex):
           madvise refusals are outside the claim for this variant */
        if (p == 3 || p == 5) continue;
        if (p == 0 && k < 512 && g_dry_kinds[w][k] == VF_C_MADVISE) continue;
#endif
        g_fcases[g_nfcases++] = (fcase_t){ w, p, k, -1 };
      }
      if (g_pairs) for (long k = 0; k < n; k++) for (long k2 = k + 1; k2 < n; k2++) {
#if MI_DEBUG
        if (k < 512 && g_dry_kinds[w][k] == VF_C_MADVISE) continue;   /* (the second index may land on a madvise after the first failure changed the sequence: */
        if (k2 < 512 && g_dry_kinds[w][k2] == VF_C_MADVISE) continue; /*  the shim then does not refuse it: see fault_case) */
#endif
        g_fcases[g_nfcases++] = (fcase_t){ w, 0, k, k2 };
      }
    }
    ncases = g_nfcases; fn = fault_case;
    vf_sample("OS calls per workload (dry run): small=%ld large=%ld huge=%ld aligned-huge=%ld threads8=%ld heaps=%ld realloc=%ld mixed=%ld arenas=%ld hugepages=%ld strings=%ld", shared_dry[0], shared_dry[1], shared_dry[2], shared_dry[3], shared_dry[4], shared_dry[6], shared_dry[7], shared_dry[8], shared_dry[11], shared_dry[12], shared_dry[14]);
  }
  else { fprintf(stderr, "unknown mode %s\n", g_mode); return 2; }
  if (replay) {
    if (g_replay_case >= 0 && g_replay_case < ncases) { vf_path[0].code = 1; vf_path[0].a = g_replay_case; vf_depth = 1; fn(g_replay_case); }
    if (vf_sh->nviol > 0) printf("REPLAY violation key=%s msg=%s\n", vf_sh->viol[0].key, vf_sh->viol[0].msg); else printf("REPLAY no violation\n");
    return vf_sh->nviol > 0 ? 1 : 0;
  }
  /* record crashes: each child writes its description into a shared slot first */
  pool_run(ncases, fn, 16);
  char extra[256]; snprintf(extra, sizeof(extra), "\"mode\":\"%s\",\"cases\":%ld,\"null_results_under_fault\":%ld,\"control_purges\":%ld", g_mode, ncases, vf_sh->counters[1], vf_sh->counters[2]);
  if (out) vf_write_result(out, extra);
  if (vf_sh->infra_error) return 2;
  return vf_sh->nviol > 0 ? 1 : 0;
}
