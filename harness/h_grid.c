/* h_grid.c -- exhaustive enumeration of finite input grids against the reference model.
 * modes:
 *   align   : (size, alignment, offset) x aligned entry points x free-list phase     -> C03 (and C01 inputs)
 *   entry   : every allocation entry point x size grid x every release variant        -> C01 inputs
 *   realloc : (old size, new size) x realloc-family variant                           -> C05
 *   zchain  : monotone growth chains over a size ladder x rezalloc/recalloc variants,
 *             on memory that was dirtied before                                        -> C04
 *   zero    : every zero-initialising entry point x size grid on dirtied memory        -> C04
 *   badargs : malformed / oversized argument tuples x entry points                     -> C06
 * Cases are numbered; worker w of W runs the cases with index % W == w in order inside one process (so the heap
 * state varies from case to case); each worker is a forked child; a crash is attributed to the case in flight.
 * usage: h_grid --prop C03 --mode align [--full] [--workers 16] --out res.json [--replay file]
 */
#include "src/static.c"
#include "verif_post.h"
#define VF_MAX_LIVE 16384
#include "vf_harness.h"
#include <limits.h>

static int g_full = 0;
static const char* g_mode = "align";
static int g_worker = 0, g_workers = 16;
static long g_stop_at = -1;          /* replay: stop after this case index */
static long g_case;                  /* current case index */
static char g_case_desc[256];

static void vf_op_str(vf_op_t op, char* buf, size_t n) { snprintf(buf, n, "case(%ld)", op.a); }
static int  vf_list_ops(vf_op_t* out, int max) { (void)out; (void)max; return 0; }
static int  vf_apply(vf_op_t op) { (void)op; return 0; }
static int  vf_check_node(void) { return 0; }

typedef struct wslot_s { volatile long cur_case; char desc[256]; volatile long done; } wslot_t;
static wslot_t* g_slots;

#define CASE_BEGIN(...) do { snprintf(g_case_desc, sizeof(g_case_desc), __VA_ARGS__); \
    g_slots[g_worker].cur_case = g_case; memcpy(g_slots[g_worker].desc, g_case_desc, sizeof(g_case_desc)); \
    vf_path[0].code = 1; vf_path[0].a = g_case; vf_path[0].b = g_worker; vf_depth = 1; } while (0)
#define VIOL(key, ...) do { char m_[400]; snprintf(m_, sizeof(m_), __VA_ARGS__); vf_violation(key, "%s: %s", g_case_desc, m_); } while (0)

/* ---------------- size grids ------------------------------------------------------------------- */
static size_t g_sizes[700]; static int g_nsizes;
static void add_size(size_t s) { for (int i = 0; i < g_nsizes; i++) if (g_sizes[i] == s) return; if (g_nsizes < 700) g_sizes[g_nsizes++] = s; }
static int cmp_sz(const void* a, const void* b) { size_t x = *(const size_t*)a, y = *(const size_t*)b; return x < y ? -1 : x > y; }
static void build_sizes(int full) {
  g_nsizes = 0;
  size_t small[] = { 0, 1, 7, 8, 9, 15, 16, 17, 24, 32, 33, 48, 64 };
  for (size_t i = 0; i < sizeof(small) / sizeof(small[0]); i++) add_size(small[i]);
  for (size_t bin = 1; bin < MI_BIN_HUGE; bin++) {
    size_t b = _mi_bin_size((uint8_t)bin);
    if (full) { add_size(b - 1); add_size(b); add_size(b + 1); if (b > 8) { add_size(b - 8); add_size(b - 9); add_size(b - 7); } }
    else if (bin % 3 == 1 || b >= 32 * 1024) { add_size(b); add_size(b + 1); }
  }
  size_t marks[] = { MI_SMALL_SIZE_MAX, MI_SMALL_OBJ_SIZE_MAX, MI_MEDIUM_OBJ_SIZE_MAX, MI_LARGE_OBJ_SIZE_MAX, MI_SEGMENT_SIZE };
  for (size_t i = 0; i < 5; i++) { add_size(marks[i] - 1); add_size(marks[i]); add_size(marks[i] + 1); if (full) { add_size(marks[i] - 8); add_size(marks[i] + 8); } }
  add_size(100 * 1024); add_size(1024 * 1024 + 1); add_size(33 * MI_MiB); if (full) add_size(70 * MI_MiB);
  qsort(g_sizes, (size_t)g_nsizes, sizeof(size_t), cmp_sz);
}

/* ---------------- neighbours: a ring of retained live blocks ----------------------------------- */
#define RING 6
static int ring_release_oldest(void) {
  if (vf_nlive < RING) return 0;
  if (vf_model_check_one(0, "ring release") != 0) return -1;
  vf_blk_t b = vf_live[0]; vf_model_remove_ordered(0);
  memset(b.p, 0xFF, b.usable > 65536 ? 65536 : b.usable);
  mi_free(b.p);
  return 0;
}
static int release_block(int i, int how) {
  if (vf_model_check_one(i, "before release") != 0) return -1;
  vf_blk_t b = vf_live[i]; vf_model_remove_ordered(i);
  memset(b.p, 0xFF, b.usable > 65536 ? 65536 : b.usable);   /* dirty what we give back */
  switch (how % 5) {
    case 0: mi_free(b.p); break;
    case 1: mi_free_size(b.p, b.req); break;
    /* mi_free_aligned / mi_free_size_aligned take the alignment of the pointer itself: only for offset 0 */
    case 2: if (b.align && b.offset == 0) mi_free_size_aligned(b.p, b.req, b.align); else mi_free_size(b.p, b.usable); break;
    case 3: if (b.align && b.offset == 0) mi_free_aligned(b.p, b.align); else mi_cfree(b.p); break;
    case 4: mi_cfree(b.p); break;
  }
  return 0;
}

/* ================================================================================================
 * mode align
 * ============================================================================================== */
enum { AE_MALLOC_AT, AE_ZALLOC_AT, AE_CALLOC_AT, AE_HEAP_MALLOC_AT, AE_HEAP_ZALLOC_AT, AE_REALLOC_NULL_AT,
       AE_MALLOC_AL, AE_POSIX_MEMALIGN, AE_MEMALIGN, AE_ALIGNED_ALLOC, AE_NEW_ALIGNED_NOTHROW, AE_RECALLOC_NULL_AL, AE_NENTRIES };
static const char* ae_names[] = { "mi_malloc_aligned_at", "mi_zalloc_aligned_at", "mi_calloc_aligned_at", "mi_heap_malloc_aligned_at", "mi_heap_zalloc_aligned_at", "mi_realloc_aligned_at(NULL)",
       "mi_malloc_aligned", "mi_posix_memalign", "mi_memalign", "mi_aligned_alloc", "mi_new_aligned_nothrow", "mi_recalloc_aligned(NULL)" };
static void* ae_call(int e, size_t n, size_t a, size_t o, int* zero) {
  void* p = NULL; *zero = 0;
  switch (e) {
    case AE_MALLOC_AT: return mi_malloc_aligned_at(n, a, o);
    case AE_ZALLOC_AT: *zero = 1; return mi_zalloc_aligned_at(n, a, o);
    case AE_CALLOC_AT: *zero = 1; return mi_calloc_aligned_at(1, n, a, o);
    case AE_HEAP_MALLOC_AT: return mi_heap_malloc_aligned_at(mi_heap_get_default(), n, a, o);
    case AE_HEAP_ZALLOC_AT: *zero = 1; return mi_heap_zalloc_aligned_at(mi_heap_get_default(), n, a, o);
    case AE_REALLOC_NULL_AT: return mi_realloc_aligned_at(NULL, n, a, o);
    case AE_MALLOC_AL: return mi_malloc_aligned(n, a);
    case AE_POSIX_MEMALIGN: { int r = mi_posix_memalign(&p, a, n); return r == 0 ? p : NULL; }
    case AE_MEMALIGN: return mi_memalign(a, n);
    case AE_ALIGNED_ALLOC: return mi_aligned_alloc(a, n);
    case AE_NEW_ALIGNED_NOTHROW: return mi_new_aligned_nothrow(n, a);
    case AE_RECALLOC_NULL_AL: *zero = 1; return mi_recalloc_aligned(NULL, 1, n, a);
  }
  return NULL;
}
static void mode_align(void) {
  static size_t offs_base[] = { 0, 8, 16, 24, 40 };
  long idx = 0;
  for (int ai = 0; ai <= 27; ai++) {
    size_t a = (size_t)1 << ai;
    for (int si = 0; si < g_nsizes; si++) {
      size_t n = g_sizes[si];
      if (a > MI_MiB && !(n == 0 || n == 1 || n == 48 || n == 8192 || n == MI_MEDIUM_OBJ_SIZE_MAX + 1 || n == 100 * 1024 || n == MI_LARGE_OBJ_SIZE_MAX + 1 || n == 33 * MI_MiB)) continue;
      if (n > 20 * MI_MiB && a > 64 * 1024 && a < 64 * MI_MiB) continue;   /* keep the very big ones to a few alignments */
      size_t offs[8]; int no = 0;
      for (int k = 0; k < 5; k++) offs[no++] = offs_base[k];
      offs[no++] = (n / 2) & ~(size_t)7; offs[no++] = n & ~(size_t)7;
      for (int oi = 0; oi < no; oi++) {
        size_t o = offs[oi];
        int dup = 0; for (int k = 0; k < oi; k++) if (offs[k] == o) dup = 1;
        if (dup) continue;
        if (o > n && o > 40) continue;
        if (a > MI_BLOCK_ALIGNMENT_MAX && o != 0) continue;   /* documented: offset 0 beyond half a segment */
        for (int e = 0; e < AE_NENTRIES; e++) {
          if (o != 0 && e >= AE_MALLOC_AL) continue;
          if (e == AE_POSIX_MEMALIGN && a < sizeof(void*)) continue;
          if (!g_full && e != AE_MALLOC_AT && e != AE_ZALLOC_AT && ((si + ai + e) % 4) != 0) continue;   /* quick: other entry points on a quarter of the grid */
          for (int phase = 0; phase < 2; phase++) {
            if (phase == 1 && n > MI_SMALL_SIZE_MAX) continue;   /* the phase shifts the small free list head */
            long my = idx++;
            if ((my % g_workers) != g_worker) continue;
            g_case = my;
            CASE_BEGIN("align #%ld %s(size=%zu, align=%zu, offset=%zu) phase=%d", my, ae_names[e], n, a, o, phase);
            VF_INC(nodes);
            if (phase == 1) { void* x = mi_malloc(n); if (x) { if (vf_model_alloc(x, n, 0, 0, 0, 0, "mi_malloc[phase]") < 0) return; } }
            int zero = 0;
            void* p = ae_call(e, n, a, o, &zero);
            if (vf_model_alloc(p, n, a, o, 0, zero, ae_names[e]) < 0) return;
            VF_INC(transitions);
            int i = vf_nlive - 1;
            vf_blk_t* b = &vf_live[i];
            if (((uintptr_t)p % a) != 0 || a > 16) VF_INC(nontrivial);
#if !MI_PADDING
            if (mi_expand(p, b->usable) != p) { VIOL("expand-failed", "mi_expand(p, usable=%zu) did not return p", b->usable); return; }
#endif
            if (mi_expand(p, b->usable + 1) != NULL) { VIOL("expand-beyond", "mi_expand(p, usable+1) succeeded"); return; }
            /* re-allocate with the same alignment (and offset): keeps the alignment and the contents */
            if ((my % 3) == 0 && !zero) {
              size_t n2 = ((my / 3) % 3 == 0) ? n / 2 + 1 : (((my / 3) % 3 == 1) ? n + 1 : 2 * n + 17);
              if (n2 > 40 * MI_MiB) n2 = n + 1;
              void* q = (o == 0 && (my & 1)) ? mi_realloc_aligned(p, n2, a) : mi_realloc_aligned_at(p, n2, a, o);
              VF_INC(checks);
              if (q == NULL) { VIOL("null-result", "mi_realloc_aligned_at(p, %zu, %zu, %zu) returned NULL", n2, a, o); return; }
              if ((((uintptr_t)q + o) % a) != 0) { VIOL("realloc-lost-alignment", "mi_realloc_aligned(_at)(p, %zu, %zu, %zu) = %p is not aligned", n2, a, o, q); return; }
              size_t keep = (n < n2 ? n : n2);
              long bad = vf_pat_check_lim((uint8_t*)q, b->wlen, b->seed, keep);
              if (bad >= 0) { VIOL("realloc-contents", "realloc_aligned %zu -> %zu: byte %ld of the preserved prefix differs", n, n2, bad); return; }
              vf_blk_t old = *b; vf_model_remove_ordered(i);
              if (vf_model_alloc(q, n2, a, o, 0, 0, "mi_realloc_aligned(_at)") < 0) return;
              (void)old;
            }
            if (vf_model_check_all("after case") != 0) return;
            /* release: either right away (varying the variant) or keep as a neighbour */
            if ((my % 4) != 1 || vf_live[vf_nlive - 1].usable > 4 * MI_MiB) { if (release_block(vf_nlive - 1, (int)(my / 4)) != 0) return; }
            while (vf_nlive >= RING) if (ring_release_oldest() != 0) return;
            if (vf_err_count > 0) { VIOL("error-callback", "mimalloc reported error %d", vf_err_last); return; }
            if (my == g_stop_at) return;
          }
        }
      }
    }
  }
}

/* ================================================================================================
 * mode entry: every allocation entry point x sizes x release variants
 * ============================================================================================== */
static const char* en_names[] = { "mi_malloc", "mi_zalloc", "mi_calloc", "mi_mallocn", "mi_malloc_small", "mi_zalloc_small", "mi_realloc(NULL)", "mi_reallocn(NULL)", "mi_reallocf(NULL)",
  "mi_rezalloc(NULL)", "mi_recalloc(NULL)", "mi_strdup", "mi_strndup", "mi_heap_malloc", "mi_heap_zalloc", "mi_heap_calloc", "mi_heap_mallocn", "mi_heap_malloc_small", "mi_heap_realloc(NULL)",
  "mi_new", "mi_new_nothrow", "mi_new_n", "mi_valloc", "mi_pvalloc", "mi_reallocarray(NULL)", "mi_reallocarr(NULL)", "mi_heap_strdup", "mi_new_realloc(NULL)", "mi_heap_rezalloc(NULL)", "mi_heap_recalloc(NULL)" };
#define EN_N 30
static char* g_strbuf;
static void* en_call(int e, size_t n, int* zero, size_t* req, size_t* align) {
  mi_heap_t* h = mi_heap_get_default(); *zero = 0; *req = n; *align = 0; void* p = NULL;
  switch (e) {
    case 0: return mi_malloc(n);
    case 1: *zero = 1; return mi_zalloc(n);
    case 2: *zero = 1; if (n % 3 == 0 && n > 0) return mi_calloc(3, n / 3); return mi_calloc(1, n);
    case 3: if ((n & 1) == 0 && n > 0) return mi_mallocn(2, n / 2); return mi_mallocn(n, 1);
    case 4: if (n > MI_SMALL_SIZE_MAX) return (void*)-1; return mi_malloc_small(n);
    case 5: if (n > MI_SMALL_SIZE_MAX) return (void*)-1; *zero = 1; return mi_zalloc_small(n);
    case 6: return mi_realloc(NULL, n);
    case 7: return mi_reallocn(NULL, 1, n);
    case 8: return mi_reallocf(NULL, n);
    case 9: *zero = 1; return mi_rezalloc(NULL, n);
    case 10: *zero = 1; return mi_recalloc(NULL, 1, n);
    case 11: case 12: case 26: {
      if (n == 0 || n > 2 * MI_MiB) return (void*)-1;
      memset(g_strbuf, 'x', n - 1); g_strbuf[n - 1] = 0;
      p = (e == 11 ? mi_strdup(g_strbuf) : e == 12 ? mi_strndup(g_strbuf, n + 5) : mi_heap_strdup(h, g_strbuf));
      if (p && (strlen((char*)p) != n - 1 || memcmp(p, g_strbuf, n) != 0)) return (void*)-2;
      return p;
    }
    case 13: return mi_heap_malloc(h, n);
    case 14: *zero = 1; return mi_heap_zalloc(h, n);
    case 15: *zero = 1; return mi_heap_calloc(h, 1, n);
    case 16: return mi_heap_mallocn(h, 1, n);
    case 17: if (n > MI_SMALL_SIZE_MAX) return (void*)-1; return mi_heap_malloc_small(h, n);
    case 18: return mi_heap_realloc(h, NULL, n);
    case 19: return mi_new(n);
    case 20: return mi_new_nothrow(n);
    case 21: return mi_new_n(n, 1);
    case 22: *align = 4096; return mi_valloc(n);
    case 23: *align = 4096; *req = (n + 4095) & ~(size_t)4095; return mi_pvalloc(n);
    case 24: return mi_reallocarray(NULL, 1, n);
    case 25: { void* q = NULL; int r = mi_reallocarr(&q, 1, n); return r == 0 ? q : NULL; }
    case 27: return mi_new_realloc(NULL, n);
    case 28: *zero = 1; return mi_heap_rezalloc(h, NULL, n);
    case 29: *zero = 1; return mi_heap_recalloc(h, NULL, 1, n);
  }
  return NULL;
}
static void mode_entry(void) {
  g_strbuf = (char*)vf_real_mmap(NULL, 4 * MI_MiB, PROT_READ | PROT_WRITE, MAP_PRIVATE | MAP_ANONYMOUS, -1, 0);
  long idx = 0;
  void* zero_ptrs[64]; int nzero = 0;
  /* the string duplicators over (length, limit): a limit is not a size request */
  { static const size_t lens[] = { 0, 1, 5, 40, 1000, 70000 };
    for (int li = 0; li < 6; li++) for (int v = 0; v < 2; v++) {
      size_t L = lens[li];
      const size_t limits[] = { 0, 1, L > 0 ? L - 1 : 0, L, L + 1, L + 8, 65536, (size_t)1 << 40, SIZE_MAX / 2, (size_t)PTRDIFF_MAX, (size_t)PTRDIFF_MAX + 1, SIZE_MAX - 8, SIZE_MAX - 1, SIZE_MAX };
      for (int k = 0; k < 14; k++) {
        long my = idx++;
        if ((my % g_workers) != g_worker) continue;
        g_case = my;
        size_t lim = limits[k], want = L < lim ? L : lim;
        CASE_BEGIN("entry #%ld %s(string of %zu characters, limit %zu)", my, v ? "mi_heap_strndup" : "mi_strndup", L, lim);
        VF_INC(nodes); VF_INC(transitions); VF_INC(checks);
        for (size_t i = 0; i < L; i++) g_strbuf[i] = (char)('a' + (i * 7) % 26); g_strbuf[L] = 0;
        char* d = (v ? mi_heap_strndup(mi_heap_get_default(), g_strbuf, lim) : mi_strndup(g_strbuf, lim));
        if (d == NULL) { VIOL("null-result", "returned NULL"); return; }
        if (strlen(d) != want || memcmp(d, g_strbuf, want) != 0) { VIOL("strdup-contents", "the copy has %zu characters (expected %zu) or differs", strlen(d), want); return; }
        if (vf_model_alloc(d, want + 1, 0, 0, 0, 0, "mi_strndup") < 0) return;       /* usable >= what was written, no overlap, accessible */
        if (vf_model_check_all("after strndup") != 0) return;
        if (ring_release_oldest() != 0) return;
        if (lim > L + 8) VF_INC(nontrivial);
      }
    }
  }
  for (int si = 0; si < g_nsizes; si++) for (int e = 0; e < EN_N; e++) for (int rel = 0; rel < (g_full ? 5 : 2); rel++) {
    size_t n = g_sizes[si];
    long my = idx++;
    if ((my % g_workers) != g_worker) continue;
    g_case = my;
    CASE_BEGIN("entry #%ld %s(%zu) release=%d", my, en_names[e], n, rel);
    int zero; size_t req, align;
    void* p = en_call(e, n, &zero, &req, &align);
    if (p == (void*)-1) continue;
    VF_INC(nodes);
    if (p == (void*)-2) { VIOL("strdup-contents", "duplicated string differs"); return; }
    /* strdup blocks hold the string: register without the zero check, then the pattern overwrites it */
    if (vf_model_alloc(p, req, align, 0, 0, zero, en_names[e]) < 0) return;
    VF_INC(transitions);
    if (n == 0) {   /* zero-size requests return unique pointers */
      for (int k = 0; k < nzero; k++) if (zero_ptrs[k] == p) { VIOL("zero-size-not-unique", "pointer %p handed out twice for size 0 while still live", p); return; }
    }
    if (n > 8192) VF_INC(nontrivial);
    if (vf_model_check_all("after case") != 0) return;
    if (n == 0 && nzero < 8) { zero_ptrs[nzero++] = p; vf_model_remove_ordered(vf_nlive - 1); /* keep it live outside the ring */ vf_live[vf_nlive] = (vf_blk_t){ (uint8_t*)p, 0, mi_usable_size(p), 0, 0, 0, 0, 0, 0 }; vf_nlive++; }
    if ((my % 5) != 2 || vf_live[vf_nlive - 1].usable > 4 * MI_MiB) { if (release_block(vf_nlive - 1, rel) != 0) return; if (n == 0 && nzero > 0 && zero_ptrs[nzero - 1] == p) nzero--; }
    while (vf_nlive >= RING + nzero) { if (vf_live[0].req == 0 && nzero > 0) { /* rotate */ vf_blk_t t = vf_live[0]; vf_model_remove_ordered(0); for (int k = 0; k < nzero; k++) if (zero_ptrs[k] == t.p) { zero_ptrs[k] = zero_ptrs[--nzero]; break; } mi_free(t.p); } else if (ring_release_oldest() != 0) return; }
    if (vf_err_count > 0) { VIOL("error-callback", "mimalloc reported error %d", vf_err_last); return; }
    if (my == g_stop_at) return;
  }
}

/* ================================================================================================
 * heap walk helper (observable heap state): sorted list of (block start) of the default heap
 * ============================================================================================== */
typedef struct hw_s { const void* blk[4096]; int n; } hw_t;
static bool hw_cb(const mi_heap_t* heap, const mi_heap_area_t* area, void* block, size_t bsize, void* arg) {
  (void)heap; (void)area; (void)bsize; hw_t* w = (hw_t*)arg; if (block != NULL && w->n < 4096) w->blk[w->n++] = block; return true;
}
static hw_t g_hw1, g_hw2;
static int cmp_ptr(const void* a, const void* b) { uintptr_t x = *(const uintptr_t*)a, y = *(const uintptr_t*)b; return x < y ? -1 : x > y; }
static void heap_snapshot(hw_t* w) { w->n = 0; mi_heap_visit_blocks(mi_heap_get_default(), true, &hw_cb, w); qsort(w->blk, (size_t)w->n, sizeof(void*), cmp_ptr); }
static int hw_contains_block_of(const hw_t* w, const void* p) {   /* is p inside some reported block? we only have starts: find the greatest start <= p */
  int lo = 0, hi = w->n;
  while (lo < hi) { int m = (lo + hi) / 2; if ((uintptr_t)w->blk[m] <= (uintptr_t)p) lo = m + 1; else hi = m; }
  if (lo == 0) return 0;
  const void* s = w->blk[lo - 1];
  return ((uintptr_t)p - (uintptr_t)s) < mi_usable_size(s) + 64;   /* aligned interior pointers are within the block */
}

/* ================================================================================================
 * mode realloc (C05)
 * ============================================================================================== */
static const char* rv_names[] = { "mi_realloc", "mi_reallocn", "mi_reallocf", "mi_rezalloc", "mi_recalloc", "mi_realloc_aligned(16)", "mi_reallocarray", "mi_reallocarr", "mi_heap_realloc", "mi_new_realloc", "mi_realloc_aligned(64)", "mi_heap_reallocf" };
#define RV_N 12
static void* rv_call(int v, void* p, size_t n) {
  mi_heap_t* h = mi_heap_get_default();
  switch (v) {
    case 0: return mi_realloc(p, n);
    case 1: return mi_reallocn(p, 1, n);
    case 2: return mi_reallocf(p, n);
    case 3: return mi_rezalloc(p, n);
    case 4: return mi_recalloc(p, 1, n);
    case 5: return mi_realloc_aligned(p, n, 16);
    case 6: return mi_reallocarray(p, 1, n);
    case 7: { void* q = p; int r = mi_reallocarr(&q, 1, n); return r == 0 ? q : NULL; }
    case 8: return mi_heap_realloc(h, p, n);
    case 9: return mi_new_realloc(p, n);
    case 10: return mi_realloc_aligned(p, n, 64);
    case 11: return mi_heap_reallocf(h, p, n);
  }
  return NULL;
}
static void* rv_call(int v, void* p, size_t n);
/* a C++ new-handler for the mi_new_* family (the C build looks it up through this symbol): when armed it lets the OS grant
   requests again and returns, so that the failed call is retried */
static int g_nh_calls, g_nh_need = 1;      /* the handler lets the OS grant requests again on its g_nh_need-th call */
static void nh_fn(void) { if (++g_nh_calls >= g_nh_need) vf_os_plan_clear(); }
#define g_nh_armed_set(on) (vf_new_handler = (on) ? &nh_fn : NULL)
typedef struct findp_s { const void* p; int hits; } findp_t;
static bool findp_cb(const mi_heap_t* heap, const mi_heap_area_t* area, void* block, size_t bsize, void* arg) { (void)heap; (void)area; (void)bsize; findp_t* f = (findp_t*)arg; if (block == f->p) f->hits++; return true; }
static int block_is_live(const void* p) { findp_t f = { p, 0 }; mi_heap_visit_blocks(mi_heap_get_default(), true, &findp_cb, &f); return f.hits; }
static void realloc_zero_exhausted(void) {
  uint8_t* keep[4]; for (int i = 0; i < 4; i++) { keep[i] = (uint8_t*)mi_malloc(100); if (!keep[i]) { VIOL("null-result", "set-up"); return; } memset(keep[i], 0x31 + i, 100); }
  vf_os.fail_from = vf_os.ncalls; vf_os.fail_kinds = (1u << VF_C_MMAP);
  static const size_t fill[] = { 1 * MI_MiB, 32 * 1024, 8 * 1024, 4096, 2048, 1024, 512, 256, 128, 64, 48, 32, 16, 8, 3000, 6000, 12000, 16 * 1024, 24 * 1024, 48 * 1024 };
  long nfill = 0;
  for (size_t f = 0; f < sizeof(fill) / sizeof(fill[0]); f++) for (long i = 0; i < 3000000; i++) { if (mi_malloc(fill[f]) == NULL) break; nfill++; }
  vf_err_count = 0;
  VF_INC(checks);
  if (mi_malloc(0) != NULL || mi_malloc(1) != NULL) { vf_sample("realloc to 0 with an exhausted heap: exhaustion incomplete after %ld blocks", nfill); return; }   /* (not reached: scenario void) */
  vf_err_count = 0;
  if (!block_is_live(keep[0]) || !block_is_live(keep[1]) || !block_is_live(keep[2])) { VIOL("walk-missing", "live blocks not reported by the heap walk"); return; }
  void* r0 = mi_realloc(keep[0], 0);
  if (r0 != NULL) { VIOL("realloc-zero", "mi_realloc(p, 0) returned %p although no block is available", r0); return; }
  if (!block_is_live(keep[0])) { VIOL("failed-realloc-freed", "a failed mi_realloc(p, 0) released the block"); return; }
  for (int j = 0; j < 100; j++) if (keep[0][j] != 0x31) { VIOL("failed-realloc-contents", "a failed mi_realloc(p, 0) changed the block"); return; }
  void* r1 = mi_reallocf(keep[1], 0);
  if (r1 != NULL) { VIOL("realloc-zero", "mi_reallocf(p, 0) returned %p although no block is available", r1); return; }
  if (block_is_live(keep[1])) { VIOL("reallocf-not-freed", "mi_reallocf(p, 0) failed (returned NULL) but did not release the block: the caller has no pointer left to it"); return; }
  void* r2 = mi_heap_reallocf(mi_heap_get_default(), keep[2], 0);
  /* (the block released by the call above may serve this one: then the result is a valid block and keep[2] is gone as well) */
  if (r2 == NULL && block_is_live(keep[2])) { VIOL("reallocf-not-freed", "mi_heap_reallocf(heap, p, 0) failed (returned NULL) but did not release the block"); return; }
  vf_err_count = 0;
  vf_sample("realloc to 0 with an exhausted heap (%ld filler blocks): realloc keeps, reallocf releases", nfill);
  VF_INC(nontrivial);
  vf_os_plan_clear();
}
static void mode_realloc(void) {
  long idx = 0;
  /* mi_new_realloc / mi_new_reallocn / mi_new(_n): the first attempt is refused by the OS, the new-handler returns, the retry
     succeeds: contents preserved, the old block released exactly once (block count of the heap), nothing handed out twice */
  /* the allocating forms: the handler has to be called twice before memory is available (the retry loop must keep going) */
  for (int form = 0; form < 6; form++) {
    long my = idx++;
    if ((my % g_workers) != g_worker) continue;
    g_case = my;
    static const char* fn[] = { "mi_new", "mi_new_n", "mi_new_nothrow", "mi_new_aligned(64)", "mi_new_aligned(4 MiB)", "mi_new_aligned(64 MiB)" };
    static const size_t al[] = { 0, 0, 0, 64, 4 * MI_MiB, 64 * MI_MiB };
    CASE_BEGIN("realloc #%ld %s(2 GiB) with a new-handler that makes memory available on its second call", my, fn[form]);
    VF_INC(nodes); VF_INC(transitions); VF_INC(checks);
    g_nh_armed_set(1); g_nh_calls = 0; g_nh_need = 2;
    vf_os.fail_from = vf_os.ncalls; vf_os.fail_kinds = (1u << VF_C_MMAP);
    size_t big = (size_t)2048 * MI_MiB + 4096;
    void* q = (form == 0 ? mi_new(big) : form == 1 ? mi_new_n(big / 8, 8) : form == 2 ? mi_new_nothrow(big) : mi_new_aligned(big, al[form]));
    g_nh_armed_set(0); g_nh_need = 1; vf_os_plan_clear();
    if (q == NULL || g_nh_calls != 2) { VIOL("new-handler-loop", "%s returned %p after %d new-handler calls; expected a block after exactly 2 calls (allocate; on failure call the handler; repeat)", fn[form], q, g_nh_calls); return; }
    if (vf_model_alloc(q, 4096, al[form], 0, 0, 0, fn[form]) < 0) return;     /* (the alignment survives the retries) */
    vf_model_remove_ordered(vf_nlive - 1); mi_free(q);
    vf_err_count = 0;
    VF_INC(nontrivial);
  }
  for (int v = 0; v < 2; v++) for (int k = 0; k < 3; k++) {
    long my = idx++;
    if ((my % g_workers) != g_worker) continue;
    g_case = my;
    static const size_t olds[] = { 100, 9000, 300000 };
    CASE_BEGIN("realloc #%ld %s(%zu -> 2 GiB) with a new-handler and a refused first attempt", my, v ? "mi_new_reallocn" : "mi_new_realloc", olds[k]);
    VF_INC(nodes); VF_INC(transitions); VF_INC(checks);
    void* p = mi_malloc(olds[k]);
    if (vf_model_alloc(p, olds[k], 0, 0, 0, 0, "mi_malloc") < 0) return;
    vf_blk_t old = vf_live[vf_nlive - 1];
    heap_snapshot(&g_hw1);
    g_nh_armed_set(1); g_nh_calls = 0;
    vf_os.fail_from = vf_os.ncalls; vf_os.fail_kinds = (1u << VF_C_MMAP);
    size_t big = (size_t)2048 * MI_MiB + 4096;
    uint8_t* q = (uint8_t*)(v ? mi_new_reallocn(p, big / 8, 8) : mi_new_realloc(p, big));
    g_nh_armed_set(0); vf_os_plan_clear();
    if (g_nh_calls < 1) { VIOL("new-handler-not-called", "the OS refused the request but the new-handler was not called (%d calls)", g_nh_calls); return; }
    if (q == NULL) { VIOL("null-result", "returned NULL although the new-handler made memory available"); return; }
    long bad = vf_pat_check_lim(q, old.wlen, old.seed, old.req);
    if (bad >= 0) { VIOL("realloc-contents", "after the retry byte %ld of the old contents (%zu bytes) differs: 0x%02x", bad, old.req, q[bad]); return; }
    vf_model_remove_ordered(vf_nlive - 1);
    heap_snapshot(&g_hw2);
    if (g_hw2.n != g_hw1.n) { VIOL("realloc-block-count", "the heap holds %d blocks after the re-allocation, %d before: the old block was not released exactly once", g_hw2.n, g_hw1.n); return; }
    /* the old block may be handed out again, but only once */
    void* a = mi_malloc(olds[k]); void* b = mi_malloc(olds[k]);
    if (a == b || a == (void*)q || b == (void*)q) { VIOL("double-handout", "after the re-allocation two allocations returned %p and %p (result block %p)", a, b, (void*)q); return; }
    mi_free(a); mi_free(b); mi_free(q);
    if (vf_err_count > 0 && vf_err_last != ENOMEM) { VIOL("error-callback", "mimalloc reported error %d", vf_err_last); return; }   /* (ENOMEM: the refused first attempt) */
    vf_err_count = 0;
    VF_INC(nontrivial);
  }
  /* a NULL input behaves as an allocation and a zero size yields a valid minimal block: every variant incl. the aligned ones */
  static const size_t pn[] = { 0, 1, 100, 100000 };
  for (int v = 0; v < 18; v++) for (int k = 0; k < 4; k++) for (int from_null = 0; from_null < 2; from_null++) {
    long my = idx++;
    if ((my % g_workers) != g_worker) continue;
    g_case = my;
    size_t n = (from_null ? pn[k] : 0), n0 = pn[k];
    size_t al = (v == 5 ? 16 : v == 10 ? 64 : v >= 12 ? 32 : 0);
    CASE_BEGIN("realloc #%ld variant %d (%s, %zu)", my, v, from_null ? "NULL" : "live block", n);
    if (!from_null && n0 == 0) continue;
    VF_INC(nodes); VF_INC(transitions); VF_INC(checks);
    void* p = NULL;
    if (!from_null) { p = (al ? mi_zalloc_aligned(n0, al) : mi_zalloc(n0)); if (vf_model_alloc(p, n0, al, 0, 0, 1, "zalloc") < 0) return; vf_model_remove_ordered(vf_nlive - 1); }
    void* q;
    switch (v) {
      case 12: q = mi_realloc_aligned(p, n, 32); break;
      case 13: q = mi_realloc_aligned_at(p, n, 32, 0); break;
      case 14: q = mi_rezalloc_aligned(p, n, 32); break;
      case 15: q = mi_recalloc_aligned(p, n ? 1 : 0, n ? n : 8, 32); break;
      case 16: q = mi_heap_realloc_aligned(mi_heap_get_default(), p, n, 32); break;
      case 17: q = mi_heap_rezalloc_aligned_at(mi_heap_get_default(), p, n, 32, 0); break;
      default: q = rv_call(v, p, n); break;
    }
    if (q == NULL) { VIOL("null-result", "realloc-family variant %d with %s input and size %zu returned NULL (a NULL input behaves as an allocation; a zero size yields a valid minimal block)", v, from_null ? "NULL" : "live", n); return; }
    if (vf_model_alloc(q, n, (v == 7 ? 0 : al), 0, 0, 0, "realloc-family") < 0) return;
    if (release_block(vf_nlive - 1, (int)my) != 0) return;
    if (vf_err_count > 0) { VIOL("error-callback", "mimalloc reported error %d", vf_err_last); return; }
    VF_INC(nontrivial);
  }
  for (int oi = 0; oi < g_nsizes; oi++) for (int ni = 0; ni < g_nsizes; ni++) {
    size_t so = g_sizes[oi], sn = g_sizes[ni];
    if (so > 20 * MI_MiB && sn > 20 * MI_MiB && !g_full) continue;
    for (int v = 0; v < RV_N; v++) {
      if (!g_full && v != 0 && ((oi + ni + v) % 6) != 0) continue;
      long my = idx++;
      if ((my % g_workers) != g_worker) continue;
      g_case = my;
      CASE_BEGIN("realloc #%ld %s(%zu -> %zu)", my, rv_names[v], so, sn);
      VF_INC(nodes);
      int zt = (v == 3 || v == 4);
      /* the aligned variants re-allocate a block that already has that alignment ("same alignment keeps the alignment");
         for a block that is not so aligned mi_realloc_aligned documents "use offset of previous allocation" */
      size_t val = (v == 10 ? 64 : v == 5 ? 16 : 0);
      void* p = (val ? mi_malloc_aligned(so, val) : (zt ? mi_zalloc(so) : mi_malloc(so)));
      if (vf_model_alloc(p, so, val, 0, 0, zt, zt ? "mi_zalloc" : "mi_malloc") < 0) return;
      int i = vf_nlive - 1; vf_blk_t b = vf_live[i];
      heap_snapshot(&g_hw1);
      void* q = rv_call(v, p, sn);
      VF_INC(transitions); VF_INC(checks);
      if (q == NULL) { VIOL("null-result", "returned NULL for a well-formed request"); return; }
      size_t uq = mi_usable_size(q);
      if (uq < sn) { VIOL("usable-too-small", "usable %zu < new size %zu", uq, sn); return; }
      size_t keep = (so < sn ? so : sn); if (keep > b.wlen) keep = b.wlen;
      long bad = vf_pat_check_lim((uint8_t*)q, b.wlen, b.seed, keep);
      if (bad >= 0) { VIOL("realloc-contents", "byte %ld of the first min(old,new)=%zu bytes differs (old %p new %p)", bad, keep, p, q); return; }
      if (zt && sn > so) { const uint8_t* qq = (const uint8_t*)q; for (size_t k = so; k < sn; k++) if (qq[k] != 0) { VIOL("grow-not-zero", "byte %zu is 0x%02x after growing a zero-initialised block (%s)", k, qq[k], q == p ? "in place" : "moved"); return; } }
      if (val && ((uintptr_t)q % val) != 0) { VIOL("realloc-lost-alignment", "%p is not %zu-aligned", q, val); return; }
      if (sn == 0 && q == NULL) { VIOL("zero-size-null", "size 0 must yield a valid minimal block"); return; }
      vf_model_remove_ordered(i);
      /* old block released exactly when a different pointer came back: observe through the heap walk */
      heap_snapshot(&g_hw2);
      if (q != p) {
        VF_INC(nontrivial);
        if (g_hw2.n != g_hw1.n) { VIOL("old-not-released", "heap walk reports %d blocks before and %d after a moving realloc (old %p, new %p): expected the same number", g_hw1.n, g_hw2.n, p, q); return; }
      } else {
        if (g_hw2.n != g_hw1.n) { VIOL("inplace-changed-heap", "heap walk reports %d blocks before and %d after an in-place realloc", g_hw1.n, g_hw2.n); return; }
      }
      if (!hw_contains_block_of(&g_hw2, q)) { VIOL("new-not-live", "the returned block %p is not reported by the heap walk", q); return; }
      if (vf_model_alloc(q, sn, val, 0, 0, 0, rv_names[v]) < 0) return;
      if (vf_model_check_all("after case") != 0) return;
      /* mi_expand around the usable size */
      {
        vf_blk_t* nb = &vf_live[vf_nlive - 1];
        void* e1 = mi_expand(q, nb->usable + 1);
        if (e1 != NULL) { VIOL("expand-beyond", "mi_expand(p, usable+1) = %p", e1); return; }
#if !MI_PADDING
        void* e0 = mi_expand(q, nb->usable); void* e2 = mi_expand(q, nb->usable / 2);
        if (e0 != q || e2 != q) { VIOL("expand-failed", "mi_expand within usable size returned %p/%p", e0, e2); return; }
#endif
      }
      if ((my % 4) != 1 || vf_live[vf_nlive - 1].usable > 4 * MI_MiB) { if (release_block(vf_nlive - 1, (int)my) != 0) return; }
      while (vf_nlive >= RING) if (ring_release_oldest() != 0) return;
      /* failing calls: original untouched, except reallocf */
      if ((my % 7) == 0) {
        void* r = mi_malloc(so); if (vf_model_alloc(r, so, 0, 0, 0, 0, "mi_malloc") < 0) return;
        heap_snapshot(&g_hw1);
        int fv = (int)((my / 7) % 4);
        void* f = (fv == 0 ? mi_realloc(r, (size_t)PTRDIFF_MAX + 1) : fv == 1 ? mi_reallocn(r, SIZE_MAX / 2, 4) : fv == 2 ? mi_recalloc(r, SIZE_MAX, 2) : mi_reallocf(r, (size_t)PTRDIFF_MAX + 9));
        VF_INC(checks);
        if (f != NULL) { VIOL("oversize-succeeded", "failing realloc variant %d returned %p", fv, f); return; }
        heap_snapshot(&g_hw2);
        if (fv == 3) {
          vf_model_remove_ordered(vf_nlive - 1);
          if (g_hw2.n != g_hw1.n - 1) { VIOL("reallocf-no-free", "mi_reallocf failed but the block count went %d -> %d", g_hw1.n, g_hw2.n); return; }
        } else {
          if (g_hw2.n != g_hw1.n) { VIOL("failed-realloc-freed", "failed realloc changed the block count %d -> %d", g_hw1.n, g_hw2.n); return; }
          if (vf_model_check_one(vf_nlive - 1, "after failed realloc") != 0) return;
          if (release_block(vf_nlive - 1, 0) != 0) return;
        }
        vf_err_count = 0;   /* debug builds report the overflow through the error callback: expected */
      }
      if (vf_err_count > 0) { VIOL("error-callback", "mimalloc reported error %d", vf_err_last); return; }
      if (my == g_stop_at) return;
    }
  }
  /* failing re-allocations to size 0 (mimalloc returns a minimal block for size 0, so even that request can fail): the OS refuses
     new mappings and every block of every page is in use. mi_realloc / mi_heap_realloc leave the block alone, the reallocf forms
     release it. (last case, in a process of its own: the heap is exhausted afterwards) */
  { long my = idx++;
    if ((my % g_workers) == g_worker) {
      g_case = my; CASE_BEGIN("realloc #%ld re-allocation to size 0 with an exhausted heap", my); VF_INC(nodes); VF_INC(transitions);
      pid_t pid = fork();
      if (pid == 0) { vf_nlive = 0; realloc_zero_exhausted(); _exit(0); }
      int st = 0; waitpid(pid, &st, 0);
      if (!(WIFEXITED(st) && WEXITSTATUS(st) == 0) && vf_sh->nviol == 0) { VIOL("crash", "case process ended with status 0x%x", st); return; }
    }
  }
}

/* ================================================================================================
 * mode zchain / zero (C04): zero-initialising allocation on dirtied memory
 * ============================================================================================== */
static void dirty_classes(const size_t* sz, int n) {
  /* allocate two blocks of every involved size (and the next size class), fill them with 0xFF, free them: all
     recycled memory of these classes is dirty afterwards */
  void* tmp[64]; int k = 0;
  for (int i = 0; i < n && k + 4 <= 64; i++) {
    size_t s = sz[i] ? sz[i] : 1;
    if (s > 20 * MI_MiB) continue;
    for (int r = 0; r < 2; r++) { void* p = mi_malloc(s); if (p) { memset(p, 0xFF, mi_usable_size(p)); tmp[k++] = p; } }
    void* p2 = mi_malloc(mi_good_size(s) + 1); if (p2) { size_t u = mi_usable_size(p2); if (u <= 20 * MI_MiB) memset(p2, 0xFF, u); tmp[k++] = p2; }
  }
  for (int i = 0; i < k; i++) mi_free(tmp[i]);
}
static const char* zg_names[] = { "mi_rezalloc", "mi_recalloc", "mi_rezalloc_aligned(32)", "mi_recalloc_aligned(32)", "mi_heap_rezalloc", "mi_rezalloc_aligned_at(64,16)", "mi_rezalloc_aligned(8)", "mi_heap_recalloc_aligned(2)" };
static void* zg_call(int v, void* p, size_t n) {
  switch (v) {
    case 0: return mi_rezalloc(p, n);
    case 1: return mi_recalloc(p, 1, n);
    case 2: return mi_rezalloc_aligned(p, n, 32);
    case 3: return mi_recalloc_aligned(p, 1, n, 32);
    case 4: return mi_heap_rezalloc(mi_heap_get_default(), p, n);
    case 5: return mi_rezalloc_aligned_at(p, n, 64, 16);
    case 6: return mi_rezalloc_aligned(p, n, 8);                                   /* word alignment: takes the unaligned re-allocation path */
    case 7: return mi_heap_recalloc_aligned(mi_heap_get_default(), p, 1, n, 2);
  }
  return NULL;
}
static void mode_zchain(void) {
  /* ladder: values that stay inside a size class, cross a class, cross page kinds and the huge boundary; the last huge values grow
     in place inside the slack of a huge block (whose usable size is rounded up to whole slices) */
  static const size_t ladder_q[] = { 1, 8, 12, 16, 40, 56, 60, 64, 100, 1000, 1100, 8000, 8192, 8200, 65536, 65540, 200000, 17 * MI_MiB, 17 * MI_MiB + 100, 17 * MI_MiB + 4000 };
  static const size_t ladder_f[] = { 0, 1, 7, 8, 9, 12, 16, 24, 40, 48, 56, 60, 64, 65, 100, 120, 1000, 1024, 1100, 8000, 8192, 8200, 10000, 65536, 65540, 100000, 200000, 1 * MI_MiB + 5, 17 * MI_MiB, 17 * MI_MiB + 100, 17 * MI_MiB + 4000, 18 * MI_MiB };
  const size_t* L = g_full ? ladder_f : ladder_q; int nl = g_full ? 32 : 20;
  int maxlen = g_full ? 4 : 3;
  long idx = 0;
  /* chains through size 0 (the "empty dynamic array"): zero-initialised block of a bytes (or NULL) -> re-allocated to 0 -> grown to b:
     every one of the b bytes must read zero */
  { static const size_t za[] = { 0 /* = NULL */, 1, 8, 40, 1000 }, zb[] = { 1, 5, 8, 9, 16, 100, 5000 };
    for (int ia = 0; ia < 5; ia++) for (int ib = 0; ib < 7; ib++) for (int v = 0; v < 8; v++) {
      long my = idx++;
      if ((my % g_workers) != g_worker) continue;
      g_case = my;
      size_t sz3[3] = { za[ia] ? za[ia] : 1, 8, zb[ib] };
      CASE_BEGIN("zchain #%ld %s chain=%zu>0>%zu", my, zg_names[v], za[ia], zb[ib]);
      VF_INC(nodes); VF_INC(checks);
      dirty_classes(sz3, 3);
      size_t al = (v == 2 || v == 3) ? 32 : (v == 5 ? 64 : 0), off = (v == 5 ? 16 : 0);
      uint8_t* p = NULL;
      if (za[ia]) { p = (uint8_t*)(v == 5 ? mi_zalloc_aligned_at(za[ia], 64, 16) : (al ? mi_zalloc_aligned(za[ia], al) : mi_zalloc(za[ia]))); if (p == NULL) { VIOL("null-result", "zalloc"); return; } }
      uint8_t* q = (uint8_t*)(v == 1 ? mi_recalloc(p, 0, 1) : v == 3 ? mi_recalloc_aligned(p, 0, 1, 32) : zg_call(v, p, 0));
      if (q == NULL) { VIOL("null-result", "re-allocation to size 0 returned NULL"); return; }
      uint8_t* r = (uint8_t*)zg_call(v, q, zb[ib]);
      VF_INC(transitions);
      if (r == NULL) { VIOL("null-result", "growth from size 0 returned NULL"); return; }
      for (size_t t = 0; t < zb[ib]; t++) if (r[t] != 0) { VIOL("grow-not-zero", "%zu -> 0 -> %zu (%s): byte %zu reads 0x%02x, expected 0", za[ia], zb[ib], r == q ? "in place" : "moved", t, r[t]); return; }
      if (al && (((uintptr_t)r + off) % al) != 0) { VIOL("realloc-lost-alignment", "growth from size 0 = %p", (void*)r); return; }
      if (vf_model_alloc(r, zb[ib], al, off, 0, 1, "rezalloc") < 0) return;
      VF_INC(nontrivial);
      if (release_block(vf_nlive - 1, 0) != 0) return;
      if (vf_err_count > 0) { VIOL("error-callback", "mimalloc reported error %d", vf_err_last); return; }
      if (my == g_stop_at) return;
    }
  }
  /* all strictly increasing chains of length 2..maxlen (first element = initial zalloc size) */
  int c[4];
  for (int len = 2; len <= maxlen; len++) {
    for (c[0] = 0; c[0] < nl; c[0]++) for (c[1] = c[0] + 1; c[1] < nl; c[1]++)
    for (c[2] = (len >= 3 ? c[1] + 1 : 0); c[2] < (len >= 3 ? nl : 1); c[2]++)
    for (c[3] = (len >= 4 ? c[2] + 1 : 0); c[3] < (len >= 4 ? nl : 1); c[3]++) {
      for (int v = 0; v < 8; v++) {
        if (!g_full && len == 3 && v >= 2 && ((c[0] + c[1] + c[2] + v) % 3) != 0) continue;
        if (g_full && len == 4 && v >= 2 && ((c[0] + c[1] + c[2] + c[3] + v) % 4) != 0) continue;
        /* at most one huge element per chain keeps the run time bounded */
        long my = idx++;
        if ((my % g_workers) != g_worker) continue;
        g_case = my;
        size_t sz[4]; for (int k = 0; k < len; k++) sz[k] = L[c[k]];
        CASE_BEGIN("zchain #%ld %s chain=%zu>%zu%s%zu%s%zu", my, zg_names[v], sz[0], sz[1], len >= 3 ? ">" : " ", len >= 3 ? sz[2] : 0, len >= 4 ? ">" : " ", len >= 4 ? sz[3] : 0);
        VF_INC(nodes);
        dirty_classes(sz, len);
        size_t al = (v == 2 || v == 3) ? 32 : 0, off = 0;
        /* the chain's first block comes from the zero-initialising entry points in turn (the growth relies on what each of them cleared) */
        const int st = (c[0] + c[1] + len) % 5;
        void* p = (v == 5 ? mi_zalloc_aligned_at(sz[0], 64, 16) : (al ? mi_zalloc_aligned(sz[0], al) :
                   (st == 1 && sz[0] <= MI_SMALL_SIZE_MAX) ? mi_zalloc_small(sz[0]) : st == 2 ? mi_calloc(1, sz[0]) : st == 3 ? mi_heap_zalloc(mi_heap_get_default(), sz[0]) :
                   st == 4 ? mi_heap_calloc(mi_heap_get_default(), sz[0] ? sz[0] : 1, sz[0] ? 1 : 0) : mi_zalloc(sz[0])));
        if (v == 5) { al = 64; off = 16; }
        if (vf_model_alloc(p, sz[0], al, off, 0, 1, "zalloc") < 0) return;
        for (int k = 1; k < len; k++) {
          int i = vf_nlive - 1; vf_blk_t b = vf_live[i];
          if (vf_model_check_one(i, "before grow") != 0) return;
          void* q = zg_call(v, b.p, sz[k]);
          VF_INC(transitions); VF_INC(checks);
          if (q == NULL) { VIOL("null-result", "grow step %d returned NULL", k); return; }
          long bad = vf_pat_check_lim((uint8_t*)q, b.wlen, b.seed, b.req);
          if (bad >= 0) { VIOL("realloc-contents", "grow step %d (%zu -> %zu): preserved byte %ld differs", k, b.req, sz[k], bad); return; }
          const uint8_t* qq = (const uint8_t*)q;
          for (size_t t = b.req; t < sz[k]; t++) if (qq[t] != 0) { VIOL("grow-not-zero", "grow step %d (%zu -> %zu, %s): byte %zu reads 0x%02x, expected 0", k, b.req, sz[k], q == (void*)b.p ? "in place" : "moved", t, qq[t]); return; }
          if (q == (void*)b.p) VF_INC(counters[1]); else VF_INC(counters[0]);
          if (al && (((uintptr_t)q + off) % al) != 0) { VIOL("realloc-lost-alignment", "grow step %d = %p", k, q); return; }
          vf_model_remove_ordered(i);
          /* register: zero-tracked => pattern only over the requested size (see DESIGN C04) */
          size_t usable = mi_usable_size(q);
          if (usable < sz[k]) { VIOL("usable-too-small", "usable %zu < %zu", usable, sz[k]); return; }
          vf_blk_t nb = { (uint8_t*)q, sz[k], usable, sz[k], al, off, 0, 1, 0 };
          nb.seed = vf_mix((uintptr_t)q ^ (sz[k] * 0x100000001B3ULL));
          vf_pat_write(nb.p, nb.wlen, nb.seed);
          vf_live[vf_nlive++] = nb;
        }
        VF_INC(nontrivial);
        if (release_block(vf_nlive - 1, 0) != 0) return;
        if (vf_err_count > 0) { VIOL("error-callback", "mimalloc reported error %d", vf_err_last); return; }
        if (my == g_stop_at) return;
      }
    }
  }
}
static const char* ze_names[] = { "mi_zalloc", "mi_calloc", "mi_zalloc_small", "mi_zalloc_aligned(64)", "mi_zalloc_aligned(4096)", "mi_zalloc_aligned(64MiB)", "mi_calloc_aligned(32)", "mi_heap_zalloc", "mi_heap_calloc",
  "mi_zalloc_aligned_at(64,8)", "mi_rezalloc(NULL)", "mi_recalloc(NULL)", "mi_heap_zalloc_aligned(128)", "mi_heap_calloc_aligned(16)", "mi_rezalloc_aligned(NULL,256)", "mi_heap_rezalloc(NULL)",
  "mi_zalloc_aligned(8)", "mi_zalloc_aligned(16)", "mi_heap_zalloc_aligned(1)", "mi_zalloc_aligned_at(16,0)", "mi_calloc_aligned(8)" };   /* (alignments a plain block satisfies anyway) */
#define ZE_N 21
static void* ze_call(int e, size_t n, size_t* al, size_t* off) {
  mi_heap_t* h = mi_heap_get_default(); *al = 0; *off = 0;
  switch (e) {
    case 0: return mi_zalloc(n);
    case 1: return (n % 5 == 0 && n) ? mi_calloc(5, n / 5) : mi_calloc(n, 1);
    case 2: return n <= MI_SMALL_SIZE_MAX ? mi_zalloc_small(n) : (void*)-1;
    case 3: *al = 64; return mi_zalloc_aligned(n, 64);
    case 4: *al = 4096; return mi_zalloc_aligned(n, 4096);
    case 5: *al = 64 * MI_MiB; return (n == 48 || n == 100 * 1024 || n == 8192 || n == MI_LARGE_OBJ_SIZE_MAX + 1) ? mi_zalloc_aligned(n, 64 * MI_MiB) : (void*)-1;
    case 6: *al = 32; return mi_calloc_aligned(1, n, 32);
    case 7: return mi_heap_zalloc(h, n);
    case 8: return mi_heap_calloc(h, 1, n);
    case 9: *al = 64; *off = 8; return mi_zalloc_aligned_at(n, 64, 8);
    case 10: return mi_rezalloc(NULL, n);
    case 11: return mi_recalloc(NULL, 1, n);
    case 12: *al = 128; return mi_heap_zalloc_aligned(h, n, 128);
    case 13: *al = 16; return mi_heap_calloc_aligned(h, 1, n, 16);
    case 14: *al = 256; return mi_rezalloc_aligned(NULL, n, 256);
    case 15: return mi_heap_rezalloc(h, NULL, n);
    case 16: *al = 8; return mi_zalloc_aligned(n, 8);
    case 17: *al = 16; return mi_zalloc_aligned(n, 16);
    case 18: *al = 1; return mi_heap_zalloc_aligned(h, n, 1);
    case 19: *al = 16; return mi_zalloc_aligned_at(n, 16, 0);
    case 20: *al = 8; return mi_calloc_aligned(1, n, 8);
  }
  return NULL;
}
static void mode_zero(void) {
  long idx = 0;
  for (int si = 0; si < g_nsizes; si++) for (int e = 0; e < ZE_N; e++) for (int st = 0; st < 2; st++) {
    size_t n = g_sizes[si];
    long my = idx++;
    if ((my % g_workers) != g_worker) continue;
    g_case = my;
    CASE_BEGIN("zero #%ld %s(%zu) state=%s", my, ze_names[e], n, st ? "after-collect" : "recycled");
    dirty_classes(&n, 1);
    if (st == 1) mi_collect(true);      /* dirty memory goes back to the segment / arena (dirty bits) */
    size_t al, off;
    void* p = ze_call(e, n, &al, &off);
    if (p == (void*)-1) continue;
    VF_INC(nodes); VF_INC(transitions);
    if (vf_model_alloc(p, n, al, off, 0, 1, ze_names[e]) < 0) return;
    if (n >= 8) VF_INC(nontrivial);
    if (release_block(vf_nlive - 1, (int)my) != 0) return;
    if (vf_err_count > 0) { VIOL("error-callback", "mimalloc reported error %d", vf_err_last); return; }
    if (my == g_stop_at) return;
  }
}

/* ================================================================================================
 * mode badargs (C06)
 * ============================================================================================== */
static const size_t big_counts[] = { 0, 1, 2, 3, 7, (size_t)1 << 16, (size_t)1 << 31, ((size_t)1 << 32) - 1, (size_t)1 << 32, ((size_t)1 << 32) + 1, ((size_t)1 << 63) - 1, (size_t)1 << 63, SIZE_MAX / 3, SIZE_MAX / 2, SIZE_MAX - 1, SIZE_MAX };
#define NBC (sizeof(big_counts) / sizeof(big_counts[0]))
static const char* cs_names[] = { "mi_calloc", "mi_mallocn", "mi_reallocn", "mi_recalloc", "mi_reallocarray", "mi_reallocarr", "mi_new_n", "mi_new_reallocn", "mi_calloc_aligned(64)", "mi_calloc_aligned_at(64,8)", "mi_recalloc_aligned(64)", "mi_recalloc_aligned_at(64,8)", "mi_heap_calloc", "mi_heap_mallocn", "mi_heap_reallocn", "mi_heap_recalloc", "mi_heap_calloc_aligned(32)", "mi_heap_recalloc_aligned(32)" };
#define CS_N 18
/* returns result pointer; *err receives errno-style result where the API has one; live = block being re-allocated (or NULL) */
static void* cs_call(int e, void* live, size_t c, size_t s, int* rc) {
  mi_heap_t* h = mi_heap_get_default(); *rc = 0; errno = 0;
  switch (e) {
    case 0: return mi_calloc(c, s);
    case 1: return mi_mallocn(c, s);
    case 2: return mi_reallocn(live, c, s);
    case 3: return mi_recalloc(live, c, s);
    case 4: { void* r = mi_reallocarray(live, c, s); *rc = errno; return r; }
    case 5: { void* q = live; *rc = mi_reallocarr(&q, c, s); return (*rc == 0 ? q : NULL); }
    case 6: return (void*)-1;   /* mi_new_n aborts/throws on failure by contract (std::bad_alloc): not a "returns NULL" API */
    case 7: return (void*)-1;
    case 8: return mi_calloc_aligned(c, s, 64);
    case 9: return mi_calloc_aligned_at(c, s, 64, 8);
    case 10: return mi_recalloc_aligned(live, c, s, 64);
    case 11: return mi_recalloc_aligned_at(live, c, s, 64, 8);
    case 12: return mi_heap_calloc(h, c, s);
    case 13: return mi_heap_mallocn(h, c, s);
    case 14: return mi_heap_reallocn(h, live, c, s);
    case 15: return mi_heap_recalloc(h, live, c, s);
    case 16: return mi_heap_calloc_aligned(h, c, s, 32);
    case 17: return mi_heap_recalloc_aligned(h, live, c, s, 32);
  }
  return (void*)-1;
}
static int cs_is_realloc(int e) { return e == 2 || e == 3 || e == 4 || e == 5 || e == 10 || e == 11 || e == 14 || e == 15 || e == 17; }
static const char* sz_names[] = { "mi_malloc", "mi_zalloc", "mi_realloc", "mi_rezalloc", "mi_malloc_aligned(64)", "mi_zalloc_aligned(4096)", "mi_malloc_aligned_at(64,8)", "mi_realloc_aligned(64)", "mi_posix_memalign(64)", "mi_memalign(64)", "mi_aligned_alloc(64)", "mi_valloc", "mi_pvalloc", "mi_heap_malloc", "mi_heap_zalloc", "mi_heap_realloc", "mi_new_nothrow", "mi_new_aligned_nothrow(64)", "mi_heap_malloc_aligned(64)", "mi_reallocf", "mi_malloc_aligned(64MiB)", "mi_expand" };
#define SZ_N 22
static void* g_sentinel = (void*)0x5e5e5e5e;
static void* sz_call(int e, void* live, size_t n, int* rc, int* frees_live) {
  mi_heap_t* h = mi_heap_get_default(); *rc = 0; *frees_live = 0;
  switch (e) {
    case 0: return mi_malloc(n);
    case 1: return mi_zalloc(n);
    case 2: return mi_realloc(live, n);
    case 3: return mi_rezalloc(live, n);
    case 4: return mi_malloc_aligned(n, 64);
    case 5: return mi_zalloc_aligned(n, 4096);
    case 6: return mi_malloc_aligned_at(n, 64, 8);
    case 7: return mi_realloc_aligned(live, n, 64);
    case 8: { void* q = g_sentinel; *rc = mi_posix_memalign(&q, 64, n); if (*rc != 0 && q != g_sentinel) *rc = -77; return (*rc == 0 ? q : NULL); }
    case 9: return mi_memalign(64, n);
    case 10: return mi_aligned_alloc(64, n);
    case 11: return mi_valloc(n);
    case 12: return mi_pvalloc(n);
    case 13: return mi_heap_malloc(h, n);
    case 14: return mi_heap_zalloc(h, n);
    case 15: return mi_heap_realloc(h, live, n);
    case 16: return mi_new_nothrow(n);
    case 17: return mi_new_aligned_nothrow(n, 64);
    case 18: return mi_heap_malloc_aligned(h, n, 64);
    case 19: *frees_live = 1; return mi_reallocf(live, n);
    case 20: return mi_malloc_aligned(n, 64 * MI_MiB);
    case 21: return mi_expand(live, n);
  }
  return (void*)-1;
}
static int sz_is_realloc(int e) { return e == 2 || e == 3 || e == 7 || e == 15 || e == 19 || e == 21; }

/* common post-condition of a call that must fail cleanly */
static int expect_clean_failure(void* res, void* live_p, int frees_live, const char* what) {
  VF_INC(checks);
  if (res != NULL) { VIOL("malformed-succeeded", "%s returned %p for a malformed/oversized request", what, res); return -1; }
  heap_snapshot(&g_hw2);
  int expect = g_hw1.n - (frees_live && live_p ? 1 : 0);
  if (g_hw2.n != expect) { VIOL("failure-side-effect", "%s failed but the heap walk reports %d blocks (before: %d, expected %d)", what, g_hw2.n, g_hw1.n, expect); return -1; }
  if (!frees_live) for (int i = 0; i < g_hw1.n; i++) if (g_hw1.blk[i] != g_hw2.blk[i]) { VIOL("failure-side-effect", "%s failed but the set of live blocks changed", what); return -1; }
  if (vf_model_check_all("after failed call") != 0) return -1;
  return 0;
}
static void mode_badargs(void) {
  long idx = 0;
  /* three live neighbours + on demand the block being re-allocated */
  for (int k = 0; k < 3; k++) { size_t s = (k == 0 ? 48 : k == 1 ? 8192 : 100 * 1024); void* p = mi_malloc(s); if (vf_model_alloc(p, s, 0, 0, 0, 0, "mi_malloc") < 0) return; }
  /* (1) count x size */
  size_t cands[64];
  for (size_t ci = 0; ci < NBC; ci++) for (size_t si = 0; si < NBC; si++) for (int e = 0; e < CS_N; e++) {
    size_t c = big_counts[ci], s = big_counts[si];
    /* also around SIZE_MAX / s */
    int nc = 0; cands[nc++] = c;
    if (s > 1 && ci == 0) { cands[nc++] = SIZE_MAX / s; cands[nc++] = SIZE_MAX / s + 1; cands[nc++] = (size_t)PTRDIFF_MAX / s + 1; }
    for (int k = 0; k < nc; k++) {
      c = cands[k];
      __uint128_t prod = (__uint128_t)c * s;
      int overflow = (prod > (__uint128_t)SIZE_MAX);
      int toobig = (!overflow && (size_t)prod > (size_t)PTRDIFF_MAX);
      if (!overflow && !toobig) continue;      /* well-formed: covered by the other modes */
      long my = idx++;
      if ((my % g_workers) != g_worker) continue;
      g_case = my;
      CASE_BEGIN("badargs #%ld %s(count=%zu, size=%zu)%s", my, cs_names[e], c, s, overflow ? " [overflow]" : " [> PTRDIFF_MAX]");
      void* live = NULL;
      if (cs_is_realloc(e)) {
        size_t la = (e == 10 || e == 11) ? 64 : (e == 17 ? 32 : 0), lo = (e == 11 ? 8 : 0);
        live = (la ? mi_zalloc_aligned_at(200, la, lo) : mi_zalloc(200));
        if (vf_model_alloc(live, 200, la, lo, 0, 1, "zalloc[live]") < 0) return;
      }
      heap_snapshot(&g_hw1);
      int rc = 0; vf_err_count = 0;
      void* r = cs_call(e, live, c, s, &rc);
      if (r == (void*)-1) { if (live) release_block(vf_nlive - 1, 0); continue; }
      VF_INC(nodes); VF_INC(transitions); if (overflow) VF_INC(nontrivial);
      if (expect_clean_failure(r, live, 0, cs_names[e]) != 0) return;
      if (e == 4 && rc != ENOMEM) { VIOL("errno-missing", "mi_reallocarray failed with errno=%d, expected ENOMEM", rc); return; }
      if (e == 5 && rc == 0) { VIOL("errno-missing", "mi_reallocarr reported success"); return; }
      if (cs_is_realloc(e)) {
        /* the same malformed request on a NULL block ("grow from nothing"), with errno clear on entry */
        int rc2 = 0; void* r2 = cs_call(e, NULL, c, s, &rc2);
        VF_INC(checks);
        if (r2 != NULL && r2 != (void*)-1) { VIOL("bad-request-succeeded", "%s(NULL, %zu, %zu) returned %p", cs_names[e], c, s, r2); return; }
        if (e == 4 && rc2 != ENOMEM) { VIOL("errno-missing", "mi_reallocarray(NULL, ..) failed with errno=%d, expected ENOMEM", rc2); return; }
        if (e == 5 && rc2 == 0) { VIOL("errno-missing", "mi_reallocarr on a NULL block reported success for a malformed request"); return; }
      }
      if (live) { if (release_block(vf_nlive - 1, 0) != 0) return; }
      vf_err_count = 0;
      if (my == g_stop_at) return;
    }
  }
  /* (2) sizes beyond the maximum */
  size_t bigs[64]; int nb = 0;
  for (long d = -8; d <= 8; d += 1) bigs[nb++] = (size_t)PTRDIFF_MAX + (size_t)d + 9;      /* all > PTRDIFF_MAX */
  for (size_t d = 0; d <= 16; d++) bigs[nb++] = SIZE_MAX - d;
  bigs[nb++] = (size_t)1 << 63; bigs[nb++] = SIZE_MAX / 2 + 4096; bigs[nb++] = SIZE_MAX - 4095; bigs[nb++] = SIZE_MAX - 65535; bigs[nb++] = SIZE_MAX - MI_SEGMENT_SIZE;
  for (int bi = 0; bi < nb; bi++) for (int e = 0; e < SZ_N; e++) {
    long my = idx++;
    if ((my % g_workers) != g_worker) continue;
    g_case = my;
    CASE_BEGIN("badargs #%ld %s(size=%zu)", my, sz_names[e], bigs[bi]);
    void* live = NULL;
    if (sz_is_realloc(e)) { live = (e == 7 ? mi_malloc_aligned(200, 64) : mi_malloc(200)); if (vf_model_alloc(live, 200, e == 7 ? 64 : 0, 0, 0, 0, "malloc[live]") < 0) return; }
    heap_snapshot(&g_hw1);
    int rc = 0, frees = 0; vf_err_count = 0;
    if (frees) {}
    vf_blk_t lb; if (live) lb = vf_live[vf_nlive - 1];
    if (e == 19 && live) vf_model_remove_ordered(vf_nlive - 1);   /* reallocf releases it on failure */
    void* r = sz_call(e, live, bigs[bi], &rc, &frees);
    VF_INC(nodes); VF_INC(transitions); VF_INC(nontrivial);
    if (expect_clean_failure(r, live, frees, sz_names[e]) != 0) return;
    if (e == 8 && rc != ENOMEM) { VIOL("posix-memalign-code", "mi_posix_memalign returned %d (out-param %s), expected ENOMEM with the out-parameter untouched", rc, rc == -77 ? "MODIFIED" : "untouched"); return; }
    if (live && e != 19) { if (release_block(vf_nlive - 1, 0) != 0) return; }
    (void)lb;
    vf_err_count = 0;
    if (my == g_stop_at) return;
  }
  /* (2b) oversized sizes in the window where size + alignment wraps, for every aligned entry point and alignment class */
  {
    static const size_t wal[] = { 16, 64, 4096, 8192, 65536, (size_t)1 << 20, (size_t)1 << 24, (size_t)1 << 26 };
    for (size_t wi = 0; wi < sizeof(wal) / sizeof(wal[0]); wi++) {
      size_t a = wal[wi];
      size_t ws[] = { SIZE_MAX - a, SIZE_MAX - a + 1, SIZE_MAX - a + 2, SIZE_MAX - a / 2, SIZE_MAX - 5000, SIZE_MAX - 4096, SIZE_MAX - 4097, SIZE_MAX - 2 * a, (size_t)PTRDIFF_MAX + 1, (size_t)PTRDIFF_MAX - a + 2, MI_MAX_ALLOC_SIZE + 1 };
      for (size_t si = 0; si < sizeof(ws) / sizeof(ws[0]); si++) for (int e = 0; e < 10; e++) {
        size_t n = ws[si];
        if (n <= (size_t)PTRDIFF_MAX && n <= MI_MAX_ALLOC_SIZE) continue;
        long my = idx++;
        if ((my % g_workers) != g_worker) continue;
        g_case = my;
        static const char* wn[] = { "mi_malloc_aligned", "mi_zalloc_aligned", "mi_calloc_aligned(1,)", "mi_malloc_aligned_at(,8)", "mi_posix_memalign", "mi_aligned_alloc", "mi_memalign", "mi_heap_malloc_aligned", "mi_realloc_aligned", "mi_new_aligned_nothrow" };
        CASE_BEGIN("badargs #%ld %s(size=%zu, alignment=%zu) [oversized]", my, wn[e], n, a);
        void* live = NULL;
        if (e == 8) { live = mi_malloc_aligned(200, a <= 4096 ? a : 4096); if (vf_model_alloc(live, 200, a <= 4096 ? a : 4096, 0, 0, 0, "malloc_aligned[live]") < 0) return; }
        heap_snapshot(&g_hw1);
        int rc = 0; void* r = NULL; vf_err_count = 0;
        switch (e) {
          case 0: r = mi_malloc_aligned(n, a); break;
          case 1: r = mi_zalloc_aligned(n, a); break;
          case 2: r = mi_calloc_aligned(1, n, a); break;
          case 3: r = mi_malloc_aligned_at(n, a, 8); break;
          case 4: { void* q = g_sentinel; rc = mi_posix_memalign(&q, a, n); if (rc != 0 && q != g_sentinel) rc = -77; r = (rc == 0 ? q : NULL); break; }
          case 5: r = mi_aligned_alloc(a, n); break;
          case 6: r = mi_memalign(a, n); break;
          case 7: r = mi_heap_malloc_aligned(mi_heap_get_default(), n, a); break;
          case 8: r = mi_realloc_aligned(live, n, a <= 4096 ? a : 4096); break;
          case 9: r = mi_new_aligned_nothrow(n, a); break;
        }
        VF_INC(nodes); VF_INC(transitions); VF_INC(nontrivial);
        if (expect_clean_failure(r, live, 0, wn[e]) != 0) return;
        if (e == 4 && rc != ENOMEM) { VIOL("posix-memalign-code", "mi_posix_memalign returned %d (out-param %s), expected ENOMEM with the out-parameter untouched", rc, rc == -77 ? "MODIFIED" : "untouched"); return; }
        if (live) { if (release_block(vf_nlive - 1, 0) != 0) return; }
        vf_err_count = 0;
        if (my == g_stop_at) return;
      }
    }
  }
  /* (3) bad alignments */
  static const size_t bad_al[] = { 0, 3, 5, 6, 7, 12, 24, 48, 100, 1000, 4095, 4097, ((size_t)1 << 20) + 1, ((size_t)1 << 32) - 1, ((size_t)1 << 63) + 1, SIZE_MAX, SIZE_MAX - 1 };
  static const size_t al_sizes[] = { 0, 1, 48, 8192, 100 * 1024, 8, 16, 64, 1024, 4096, 1 << 20 };     /* (powers of two: the sizes an aligned fast path would take) */
  for (size_t ai = 0; ai < sizeof(bad_al) / sizeof(bad_al[0]); ai++) for (size_t si = 0; si < sizeof(al_sizes) / sizeof(al_sizes[0]); si++) for (int e = 0; e < 12; e++) {
    long my = idx++;
    if ((my % g_workers) != g_worker) continue;
    g_case = my;
    size_t a = bad_al[ai], n = al_sizes[si];
    static const char* an[] = { "mi_malloc_aligned", "mi_zalloc_aligned", "mi_calloc_aligned", "mi_malloc_aligned_at(,8)", "mi_posix_memalign", "mi_aligned_alloc", "mi_memalign", "mi_heap_malloc_aligned", "mi_new_aligned_nothrow", "mi_realloc_aligned", "mi_rezalloc_aligned", "mi_heap_zalloc_aligned_at(,16)" };
    /* outside the claim: (1) the realloc_aligned family documents that an alignment <= sizeof(void*) means "no alignment
       requested" (plain realloc); (2) debug builds evaluate `p % alignment` inside an assertion of mi_memalign /
       mi_aligned_alloc, so alignment 0 traps there before the NULL can be returned (debug-build assertion) */
    if ((e == 9 || e == 10) && a <= sizeof(uintptr_t)) continue;
#if MI_DEBUG
    if ((e == 5 || e == 6) && a == 0) continue;
#endif
    CASE_BEGIN("badargs #%ld %s(size=%zu, alignment=%zu)", my, an[e], n, a);
    void* live = NULL;
    if (e == 9 || e == 10) { live = mi_zalloc(200); if (vf_model_alloc(live, 200, 0, 0, 0, 1, "zalloc[live]") < 0) return; }
    heap_snapshot(&g_hw1);
    int rc = 0; void* r = NULL; vf_err_count = 0;
    mi_heap_t* h = mi_heap_get_default();
    switch (e) {
      case 0: r = mi_malloc_aligned(n, a); break;
      case 1: r = mi_zalloc_aligned(n, a); break;
      case 2: r = mi_calloc_aligned(1, n, a); break;
      case 3: r = mi_malloc_aligned_at(n, a, 8); break;
      case 4: { void* q = g_sentinel; rc = mi_posix_memalign(&q, a, n); if (rc != 0 && q != g_sentinel) rc = -77; r = (rc == 0 ? q : NULL); break; }
      case 5: r = mi_aligned_alloc(a, n); break;
      case 6: r = mi_memalign(a, n); break;
      case 7: r = mi_heap_malloc_aligned(h, n, a); break;
      case 8: r = mi_new_aligned_nothrow(n, a); break;
      case 9: r = mi_realloc_aligned(live, n ? n : 1, a); break;
      case 10: r = mi_rezalloc_aligned(live, n ? n : 1, a); break;
      case 11: r = mi_heap_zalloc_aligned_at(h, n, a, 16); break;
    }
    VF_INC(nodes); VF_INC(transitions); VF_INC(nontrivial);
    /* realloc_aligned with alignment <= sizeof(void*) is documented to fall back to plain realloc (alignment 0,3,5,6,7 are
       "<= sizeof(uintptr_t)"): those are not malformed for this entry point */
    int fallback_ok = ((e == 9 || e == 10) && a <= sizeof(uintptr_t));
    if (fallback_ok) {
      if (r == NULL) { VIOL("null-result", "%s with small alignment returned NULL", an[e]); return; }
      vf_model_remove_ordered(vf_nlive - 1);
      if (vf_model_alloc(r, n ? n : 1, 0, 0, 0, 0, an[e]) < 0) return;
      if (release_block(vf_nlive - 1, 0) != 0) return;
      continue;
    }
    if (expect_clean_failure(r, live, 0, an[e]) != 0) return;
    if (e == 4 && rc != EINVAL) { VIOL("posix-memalign-code", "mi_posix_memalign(alignment=%zu) returned %d (out-param %s), expected EINVAL and the out-parameter untouched", a, rc, rc == -77 ? "MODIFIED" : "untouched"); return; }
    if (live) { if (release_block(vf_nlive - 1, 0) != 0) return; }
    vf_err_count = 0;
    if (my == g_stop_at) return;
  }
  /* (4) posix_memalign with alignment not a multiple of sizeof(void*) but a power of two: 1, 2, 4 */
  for (size_t a = 1; a < sizeof(void*); a *= 2) {
    long my = idx++;
    if ((my % g_workers) != g_worker) continue;
    g_case = my;
    CASE_BEGIN("badargs #%ld mi_posix_memalign(alignment=%zu)", my, a);
    heap_snapshot(&g_hw1);
    void* q = g_sentinel; int rc = mi_posix_memalign(&q, a, 100);
    VF_INC(nodes); VF_INC(transitions);
    if (rc != EINVAL || q != g_sentinel) { VIOL("posix-memalign-code", "alignment %zu: rc=%d out-param %s", a, rc, q == g_sentinel ? "untouched" : "MODIFIED"); return; }
    if (expect_clean_failure(NULL, NULL, 0, "mi_posix_memalign") != 0) return;
  }
}

/* ---------------- driver ------------------------------------------------------------------------ */

/* ================================================================================================
 * mode hardened (C17): the three detections over the size grid, every case in its own process (debug builds may run
 * into internal assertions after a detected error, which the property leaves outside the claim: the case ends at the report)
 *   kind 0: one foreign byte just past the requested size, block freed by its own thread      -> EFAULT
 *   kind 1: the same, block freed by another thread (owner alive)                              -> EFAULT
 *   kind 2: second free of a block whose page holds another live block                         -> exactly one EAGAIN, ignored
 *   kind 4: a released block's link is overwritten, then an older released block of the same page is freed again: the scan for the
 *           double free reaches the forged link                                                 -> reported (EFAULT), not followed; the case ends there
 *   kind 3: control: an intact block of a page in the full queue, freed by another thread (the free goes through the owner's
 *           delayed list, a hardened build stores its link inside the block), owner collects     -> no report at all, block re-usable
 * ============================================================================================== */
#if (MI_PADDING || MI_SECURE >= 4 || MI_DEBUG)
#include <pthread.h>
static void* hd_free_thread(void* p) { mi_free(p); return NULL; }
#if MI_DEBUG
static int hd_expect_efault;
static void hd_error_hook(int err) { if (hd_expect_efault && err == EFAULT) { VF_INC(nontrivial); _exit(0); } }   /* the case ends at the report */
#endif
static void hd_case(int kind, size_t n) {
  vf_err_count = 0;
  void* nb = mi_malloc(n);                       /* neighbour that stays live: keeps the page in use */
  uint8_t* p = (uint8_t*)mi_malloc(n);
  if (p == NULL || nb == NULL) { VIOL("null-result", "mi_malloc(%zu) returned NULL", n); return; }
  if (vf_model_alloc(nb, n, 0, 0, 0, 0, "mi_malloc") < 0) return;
  if (vf_model_alloc(p, n, 0, 0, 0, 0, "mi_malloc") < 0) return;
  vf_model_remove_ordered(vf_nlive - 1);
  VF_INC(checks);
  if (kind == 2) {
    if (_mi_ptr_page(nb) != _mi_ptr_page(p)) return;      /* a block with a page of its own: the second free would come after the whole area was released (outside the claim) */
    mi_free(p);
    if (vf_err_count != 0) { VIOL("error-callback", "first free of a valid block reported error %d", vf_err_last); return; }
    mi_free(p);
    if (vf_err_count != 1 || vf_err_last != EAGAIN) { VIOL("double-free-unreported", "second free of a %zu-byte block (its page holds another live block) raised %d reports (last code %d), expected exactly one EAGAIN", n, vf_err_count, vf_err_last); return; }
#if !MI_DEBUG
    vf_err_count = 0;
    /* ignored: the block is handed out once, not twice */
    void* a = mi_malloc(n); void* b = mi_malloc(n);
    if (a == NULL || b == NULL || a == b) { VIOL("double-handout", "after an ignored double free two allocations returned %p and %p", a, b); return; }
    if (vf_model_alloc(a, n, 0, 0, 0, 0, "mi_malloc") < 0) return;
    if (vf_model_alloc(b, n, 0, 0, 0, 0, "mi_malloc") < 0) return;
    if (vf_model_check_all("after double free") != 0) return;
#endif
    VF_INC(nontrivial);
    return;
  }
  if (kind == 4) {
    uint8_t* x = (uint8_t*)mi_malloc(n);
    if (x == NULL) { VIOL("null-result", "mi_malloc(%zu) returned NULL", n); return; }
    if (_mi_ptr_page(nb) != _mi_ptr_page(p) || _mi_ptr_page(x) != _mi_ptr_page(p)) return;   /* needs three blocks in one page */
    mi_free(x); mi_free(p);                               /* p is now in front of x on the page's list of released blocks */
    if (vf_err_count != 0) { VIOL("error-callback", "free of a valid block reported error %d", vf_err_last); return; }
    uint64_t forged = 0x4141414141414141ULL; memcpy(p, &forged, sizeof(forged));     /* use after free: the link of p */
#if MI_DEBUG
    hd_expect_efault = 1; vf_error_hook = &hd_error_hook;
#endif
    mi_free(x);                                           /* second free of x: the allocator scans the released blocks and meets p's link */
    if (vf_err_count < 1) { VIOL("forged-link-unreported", "the scan for a double free of a %zu-byte block passed a released block whose link had been overwritten, and nothing was reported", n); return; }
    if (vf_err_last != EFAULT && vf_err_last != EAGAIN) { VIOL("error-callback", "unexpected error code %d", vf_err_last); return; }
    VF_INC(nontrivial);
    return;
  }
  if (kind == 3) {
    /* fill p's page until the allocator has moved it to the full queue */
    const mi_page_t* pg = _mi_ptr_page(p);
    for (int k = 0; k < 6000 && !mi_page_is_in_full(pg); k++) { void* q = mi_malloc(n); if (q == NULL) { VIOL("null-result", "mi_malloc(%zu) returned NULL", n); return; } }
    if (!mi_page_is_in_full(pg)) return;                  /* (a page of its own: never in the full queue with another block) */
    memset(p, 0x6B, n);
    { pthread_t th; if (pthread_create(&th, NULL, hd_free_thread, p) != 0) { vf_sh->infra_error = 1; return; } pthread_join(th, NULL); }
    if (vf_err_count != 0) { VIOL("false-report", "an intact %zu-byte block freed by another thread raised %d error reports (last code %d)", n, vf_err_count, vf_err_last); return; }
    mi_collect(false);                                    /* the owner takes the block from its delayed list */
    if (vf_err_count != 0) { VIOL("false-report", "an intact %zu-byte block freed by another thread (page in the full queue) raised %d error reports (last code %d) when its owner collected", n, vf_err_count, vf_err_last); return; }
    void* a = mi_malloc(n);
    if (a == NULL) { VIOL("null-result", "mi_malloc(%zu) returned NULL", n); return; }
    if (vf_model_alloc(a, n, 0, 0, 0, 0, "mi_malloc") < 0) return;
    if (vf_model_check_all("after remote free of an intact block") != 0) return;
    VF_INC(nontrivial);
    return;
  }
  size_t usable = mi_usable_size(p);
  size_t at = n;
  if (usable < n) { VIOL("usable-too-small", "usable %zu < %zu", usable, n); return; }
  p[at] = 0x41;
#if MI_DEBUG
  hd_expect_efault = 1; vf_error_hook = &hd_error_hook;
#endif
  if (kind == 1) { pthread_t th; if (pthread_create(&th, NULL, hd_free_thread, p) != 0) { vf_sh->infra_error = 1; return; } pthread_join(th, NULL); }
  else mi_free(p);
  if (vf_err_count < 1 || vf_err_last != EFAULT) { VIOL("overflow-unreported", "a foreign byte at offset %zu of a block of requested size %zu was not reported when the block was freed by %s (%d reports, last code %d), expected EFAULT", at, n, kind == 1 ? "another thread" : "its own thread", vf_err_count, vf_err_last); return; }
  VF_INC(nontrivial);
}
/* every detection is reported, however many came before it in the same process (mimalloc stops *printing* after max_errors) */
static void hd_many(void) {
  mi_option_enable(mi_option_show_errors);
  void* keep[64];
  for (int k = 0; k < 48; k++) {
    keep[k] = mi_malloc(40); uint8_t* p = (uint8_t*)mi_malloc(40);
    if (!keep[k] || !p || _mi_ptr_page(keep[k]) != _mi_ptr_page(p)) continue;
    vf_err_count = 0;
    if (k % 2 == 0) { mi_free(p); mi_free(p); if (vf_err_count != 1 || vf_err_last != EAGAIN) { VIOL("double-free-unreported", "double free number %d of this process raised %d reports (last code %d), expected exactly one EAGAIN", k / 2 + 1, vf_err_count, vf_err_last); return; } }
    else { p[40] = 0x41; mi_free(p); if (vf_err_count < 1 || vf_err_last != EFAULT) { VIOL("overflow-unreported", "overflow number %d of this process (after %d other detected errors) raised %d reports (last code %d), expected EFAULT", k / 2 + 1, k, vf_err_count, vf_err_last); return; } }
    VF_INC(checks);
  }
  VF_INC(nontrivial);
}
static void mode_hardened(void) {
  long idx = 0;
#if !MI_DEBUG
  { long my = idx++;
    if ((my % g_workers) == g_worker) {
      g_case = my; CASE_BEGIN("hardened #%ld 48 detections in one process", my); VF_INC(nodes);
      pid_t pid = fork(); if (pid == 0) { vf_nlive = 0; hd_many(); _exit(0); }
      int st = 0; waitpid(pid, &st, 0);
      if (!(WIFEXITED(st) && WEXITSTATUS(st) == 0) && vf_sh->nviol == 0) { VIOL("crash", "case process ended with status 0x%x", st); return; }
      if (vf_sh->nviol > 0) return;
    }
  }
#endif
  for (int si = 0; si < g_nsizes + 130; si++) {
    size_t n = (si < 130 ? (size_t)si + 1 : g_sizes[si - 130]);     /* every size 1..130, then the boundary grid */
    if (n == 0 || n > 2 * MI_MiB) continue;
    for (int kind = 0; kind < 5; kind++) {
      if (kind >= 3 && n > 8 * 1024) continue;
      long my = idx++;
      if ((my % g_workers) != g_worker) continue;
      g_case = my;
      CASE_BEGIN("hardened #%ld kind=%d size=%zu", my, kind, n);
      VF_INC(nodes); VF_INC(transitions);
      pid_t pid = fork();
      if (pid == 0) { vf_nlive = 0; hd_case(kind, n); _exit(0); }
      int st = 0; waitpid(pid, &st, 0);
      if (!(WIFEXITED(st) && WEXITSTATUS(st) == 0) && vf_sh->nviol == 0) { VIOL("crash", "case process ended with status 0x%x", st); return; }
      if (vf_sh->nviol > 0) return;
      if (my == g_stop_at) return;
    }
  }
}
#else
static void mode_hardened(void) { fprintf(stderr, "mode hardened needs a secure or debug build\n"); vf_sh->infra_error = 1; }
#endif

/* ================================================================================================
 * mode fillpage (C01): pages filled to their very last block, next to a neighbour page
 * For every size class up to 1 KiB and seven consecutive pages of it (so that the page's slice index takes every residue the
 * block size can interact with): one block of the class (opens the page), one block of a fresh larger class (its page takes
 * the next slice, first block at the start of the slice), then blocks of the class until the page is full. The model checks
 * every returned block against all live ones (overlap, accessibility) and all contents at the end of the round.
 * ============================================================================================== */
static void* g_kept[60000]; static int g_nkept;
static void mode_fillpage(void) {
  long idx = 0;
  static const size_t neighbours[] = { 1024, 1280, 1536, 1792, 2048, 2560, 3072, 3584, 4096, 5120, 6144, 7168, 8192 };
  for (size_t bin = 1; bin < MI_BIN_HUGE; bin++) {
    size_t bs = _mi_bin_size((uint8_t)bin);
    if (bs > 1024) break;
    long my = idx++;
    if ((my % g_workers) != g_worker) continue;
    g_case = my;
    for (int round = 0; round < 7; round++) {
      CASE_BEGIN("fillpage #%ld class %zu page %d", my, bs, round);
      VF_INC(nodes);
      /* (the previous round filled the previous page of this class completely: this allocation opens a new one) */
      uint8_t* first = (uint8_t*)mi_malloc(bs);
      if (vf_model_alloc(first, bs, 0, 0, 0, 0, "mi_malloc") < 0) return;
      mi_page_t* pg = _mi_ptr_page(first);
      size_t nbs = neighbours[(my + round) % 13]; if (_mi_bin(nbs) == _mi_bin(bs)) nbs = neighbours[(my + round + 1) % 13];
      void* nb = mi_malloc(nbs);
      if (vf_model_alloc(nb, nbs, 0, 0, 0, 0, "mi_malloc[neighbour]") < 0) return;
      long n = 1;
      for (;;) {
        if (pg->free == NULL && pg->local_free == NULL && pg->capacity == pg->reserved) break;   /* full: the next one would open another page */
        void* p = mi_malloc(bs);
        VF_INC(transitions);
        if (vf_model_alloc(p, bs, 0, 0, 0, 0, "mi_malloc") < 0) return;
        if (_mi_ptr_page(p) != pg) { vf_model_remove_ordered(vf_nlive - 1); mi_free(p); break; }
        if (++n > 9000) { VIOL("page-never-full", "page of class %zu took more than 9000 blocks", bs); return; }
      }
      VF_INC(checks);
      if (vf_model_check_all("page full") != 0) return;
      if ((size_t)n != pg->reserved) { VIOL("page-count", "page of class %zu holds %ld blocks, reserved %u", bs, n, (unsigned)pg->reserved); return; }
      VF_INC(nontrivial);
      /* the page stays full (so that the next round opens a new page); its blocks leave the model except the last two and
         the neighbour, and are released when the class is done */
      while (vf_nlive > 3 * (round + 1)) { int i = 3 * round; if (vf_model_check_one(i, "end of round") != 0) return; if (g_nkept < 60000) g_kept[g_nkept++] = vf_live[i].p; vf_model_remove_ordered(i); }
      if (vf_err_count > 0) { VIOL("error-callback", "mimalloc reported error %d", vf_err_last); return; }
    }
    while (vf_nlive > 0) { vf_blk_t b = vf_live[0]; if (vf_model_check_one(0, "before free") != 0) return; vf_model_remove_ordered(0); mi_free(b.p); }
    while (g_nkept > 0) mi_free(g_kept[--g_nkept]);
    if (my == g_stop_at) return;
  }
}

static void run_mode(void) {
  if      (strcmp(g_mode, "align") == 0) mode_align();
  else if (strcmp(g_mode, "entry") == 0) mode_entry();
  else if (strcmp(g_mode, "realloc") == 0) mode_realloc();
  else if (strcmp(g_mode, "zchain") == 0) mode_zchain();
  else if (strcmp(g_mode, "zero") == 0) mode_zero();
  else if (strcmp(g_mode, "badargs") == 0) mode_badargs();
  else if (strcmp(g_mode, "hardened") == 0) mode_hardened();
  else if (strcmp(g_mode, "fillpage") == 0) mode_fillpage();
  else { fprintf(stderr, "unknown mode %s\n", g_mode); vf_sh->infra_error = 1; }
}

int main(int argc, char** argv) {
  vf_prop = vf_arg(argc, argv, "--prop", "C03");
  vf_outdir = vf_arg(argc, argv, "--outdir", "/verif");
  g_mode = vf_arg(argc, argv, "--mode", "align");
  g_full = vf_flag(argc, argv, "--full");
  g_workers = atoi(vf_arg(argc, argv, "--workers", "16"));
  const char* out = vf_arg(argc, argv, "--out", NULL);
  const char* replay = vf_arg(argc, argv, "--replay", NULL);
  vf_verbose = vf_flag(argc, argv, "-v");
  if (vf_verbose) vf_install_crash_handler();
  vf_shared_init(atof(vf_arg(argc, argv, "--deadline", "900")));
  g_slots = (wslot_t*)mmap(NULL, sizeof(wslot_t) * 64, PROT_READ | PROT_WRITE, MAP_SHARED | MAP_ANONYMOUS, -1, 0);
  if (!vf_verbose) mi_register_output(&vf_out_null, NULL);
  mi_register_error(&vf_error_cb, NULL);
  if (replay) {
    if (vf_load_replay(replay) < 0) return 2;
    char m[32] = "align"; int full = 0, workers = 16;
    sscanf(vf_cfg, "%31s full=%d workers=%d", m, &full, &workers);
    g_mode = strdup(m); g_full = full; g_workers = workers;
    g_stop_at = vf_path[0].a; g_worker = (int)vf_path[0].b;
  }
  snprintf(vf_cfg, sizeof(vf_cfg), "%s full=%d workers=%d", g_mode, g_full, g_workers);
  build_sizes(g_full);
  if (replay) {
    run_mode();
    if (vf_sh->nviol > 0) printf("REPLAY violation key=%s msg=%s\n", vf_sh->viol[0].key, vf_sh->viol[0].msg); else printf("REPLAY no violation\n");
    return vf_sh->nviol > 0 ? 1 : 0;
  }
  pid_t pids[64];
  for (int w = 0; w < g_workers; w++) {
    pid_t pid = fork();
    if (pid == 0) { g_worker = w; g_slots[w].cur_case = -1; run_mode(); g_slots[w].done = 1; _exit(0); }
    pids[w] = pid;
  }
  for (int w = 0; w < g_workers; w++) {
    int st = 0; waitpid(pids[w], &st, 0);
    if (!(WIFEXITED(st) && WEXITSTATUS(st) == 0) || !g_slots[w].done) {
      g_worker = w; g_case = g_slots[w].cur_case; memcpy(g_case_desc, g_slots[w].desc, sizeof(g_case_desc));
      vf_path[0].code = 1; vf_path[0].a = g_case; vf_path[0].b = w; vf_depth = 1;
      if (vf_sh->nviol == 0 || WIFSIGNALED(st)) VIOL("crash", "worker died (status 0x%x) in this case", st);
    }
  }
  vf_sample("%s", g_slots[0].desc); vf_sample("%s", g_slots[g_workers / 2].desc); vf_sample("%s", g_slots[g_workers - 1].desc);
  char extra[256]; snprintf(extra, sizeof(extra), "\"mode\":\"%s\",\"full\":%d,\"sizes\":%d,\"moved\":%ld,\"inplace\":%ld", g_mode, g_full, g_nsizes, vf_sh->counters[0], vf_sh->counters[1]);
  if (out) vf_write_result(out, extra);
  if (vf_sh->infra_error) return 2;
  return vf_sh->nviol > 0 ? 1 : 0;
}
