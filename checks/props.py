"""props.py -- per-property plans for ./check.  Every plan enumerates a bounded space exhaustively on the
real implementation (harness binaries built from $VERIF_REPO) and aggregates the measured counts."""
import os, json, time, concurrent.futures as cf

class Ctx:
    def __init__(self, **kw): self.__dict__.update(kw)
    @property
    def quick(self): return self.tier != "thorough"

# ------------------------------------------------------------------------------------------------
# generic aggregation for harness runs
# ------------------------------------------------------------------------------------------------
def agg_runs(ctx, jobs, parallel=2, sample_limit=6):
    """jobs: list of dict(bin=..., args=[...], env={...}, tag=str, timeout=s). Runs them (a few in parallel; each
    harness already uses up to 16 processes) and merges the result JSONs."""
    tot = dict(nodes=0, transitions=0, states=0, pruned=0, nontrivial=0, checks=0, maxdepth=0)
    samples, viol, infra, per_run = [], [], [], []
    deadline_hit = False
    def one(j):
        t0 = time.time()
        code, data, out = ctx.run_harness(j["bin"], j["args"], env=j.get("env"), timeout=j.get("timeout", 3600), verbose=ctx.verbose)
        return j, code, data, out, time.time() - t0
    with cf.ThreadPoolExecutor(max_workers=parallel) as ex:
        results = list(ex.map(one, jobs))
    for j, code, data, out, dt in results:
        tag = j.get("tag", "")
        if data is None:
            infra.append(f"run [{tag}] produced no result (exit {code}): {out[-600:]}")
            continue
        for k in ("nodes", "transitions", "states", "pruned", "nontrivial", "checks"): tot[k] += data.get(k, 0)
        tot["maxdepth"] = max(tot["maxdepth"], data.get("maxdepth_seen", 0))
        if data.get("deadline_hit"): deadline_hit = True
        if data.get("infra_error"): infra.append(f"run [{tag}] reported an infrastructure error: {out[-400:]}")
        for s in data.get("samples", [])[:2]:
            if len(samples) < sample_limit: samples.append(f"{tag}: {s}")
        for v in data.get("violations", []):
            v = dict(v); v["key"] = f"{ctx.pid}:{v['key']}:{tag}"; viol.append(v)
        if code not in (0, 1) and not data.get("violations"):
            infra.append(f"run [{tag}] exited with {code}: {out[-600:]}")
        per_run.append(dict(tag=tag, nodes=data.get("nodes"), states=data.get("states"), wall_s=round(dt, 2), extra={k: data[k] for k in data if k not in ("samples", "violations", "counters", "property")}))
    return tot, samples, viol, infra, per_run, deadline_hit

def seq_jobs(ctx, plan):
    """plan: list of (variant, profile, start, depth, flags(list), env(dict))"""
    jobs = []
    for (variant, profile, start, depth, flags, env) in plan:
        b = ctx.build("h_seq", variant)
        args = ["--prop", ctx.pid, "--profile", profile, "--start", start, "--depth", depth, "--deadline", ctx.deadline or (120 if ctx.quick else 1500)] + list(flags)
        tag = f"{variant}/{profile}/{start}/D{depth}" + ("/" + ",".join(f.lstrip('-') for f in flags if f.startswith('--')) if flags else "") + ("/" + ",".join(f"{k}={v}" for k, v in env.items()) if env else "")
        jobs.append(dict(bin=b, args=args, env=env, tag=tag, timeout=(300 if ctx.quick else 3000)))
    return jobs

def seq_property(ctx, plan, rule, assumptions, nontrivial_note=""):
    tot, samples, viol, infra, per_run, dl = agg_runs(ctx, seq_jobs(ctx, plan))
    cov = dict(
        evaluations=tot["nodes"], distinct_nontrivial=tot["states"],
        states=max(tot["states"], 1) if tot["nodes"] else 0, transitions=tot["transitions"],
        traces_validated_against_impl=tot["nodes"],
        rule=rule + " distinct_nontrivial = number of distinct allocator-state fingerprints (raw metadata of heaps, segments, free lists in order, arenas, OS mapping table, model) reached, summed over runs.",
        samples=samples, exhaustive=not dl, oracle_checks=tot["checks"], max_depth=tot["maxdepth"], pruned_nodes=tot["pruned"],
        runs=per_run, explanation="every node is a forked process of the real allocator; every explored sequence therefore ran on the implementation" + (" " + nontrivial_note if nontrivial_note else ""),
    )
    if dl: cov["deadline_hit"] = True
    return dict(coverage=cov, assumptions=assumptions, violations=viol, infra=infra)

def replay_file(ctx, path):
    """re-run a replay file twice in fresh processes without the explorer; the two runs must agree"""
    lines = open(path).read().splitlines()
    variant = next((l.split()[1] for l in lines if l.startswith("variant ")), "rel")
    cfg = next((l[4:] for l in lines if l.startswith("cfg ")), "")
    env = dict(l[4:].split("=", 1) for l in lines if l.startswith("env ") and "=" in l)
    harness = next((l.split()[1] for l in lines if l.startswith("harness ")), "h_grid" if "workers=" in cfg else "h_seq")
    sched = any(l.startswith("sched 1") for l in lines)
    b = ctx.build(harness, variant, sched=sched)
    outs = []
    for _ in range(2):
        code, data, out = ctx.run_harness(b, ["--prop", ctx.pid, "--replay", path], env=env)
        outs.append((code, [l for l in out.splitlines() if l.startswith("REPLAY")]))
    print(outs[0][1][0] if outs[0][1] else f"replay exited {outs[0][0]}")
    if outs[0] != outs[1]:
        print("INFRA-ERROR: replay is not deterministic:", outs); return 2
    return 1 if outs[0][0] != 0 else 0
seq_replay = replay_file

COMMON_ASSUME = [
    "Linux x86-64, gcc, C build of src/static.c with the suite's release flags (-O2 -DNDEBUG -DMI_BUILD_RELEASE) unless a variant says otherwise",
    "the OS is modelled by engine/vf_os.c (real mmap/mprotect/madvise underneath, virtual clock, deterministic getrandom, no huge-TLB pages)",
    "bounded: only the stated alphabets, depths and start states are covered",
]

# ------------------------------------------------------------------------------------------------
# C01
# ------------------------------------------------------------------------------------------------
def run_C01(ctx):
    q = ctx.quick
    D = 5 if q else 7
    pr = [] if q else ["--prune"]
    plan = [
        ("rel", "P1", "S0", D, pr, {}), ("rel", "P3", "S0", D, pr, {}), ("rel", "P2", "S0", 4 if q else 5, pr, {}),
        ("rel", "P3r", "S0", 4 if q else 5, pr, {}),
        ("rel", "P1", "S1", 4 if q else 6, pr, {}), ("rel", "P1", "S2", 4 if q else 6, pr, {}), ("rel", "P1", "S3", 4 if q else 6, pr, {}), ("rel", "P1", "S4", 4 if q else 6, pr, {}),
        ("rel", "P7t", "S0", 4 if q else 6, pr, {}), ("rel", "P4h", "S0", 4 if q else 6, pr, {}), ("rel", "P4d", "S0", 5 if q else 7, pr, {}), ("rel", "P4d", "S6", 5 if q else 7, pr, {}),
        ("rel", "P2", "S9", 3 if q else 4, [], {}), ("rel", "P8f", "S10", 4 if q else 5, pr, {}), ("dbg", "P8f", "S10", 3 if q else 4, pr, {}), ("rel", "P8g", "S11", 4 if q else 5, pr, {}), ("rel", "P8g", "S11", 3 if q else 4, pr, LAZY),
        ("rel", "P1q", "S12", 5 if q else 6, pr, {}), ("sec", "P1q", "S12", 4 if q else 5, pr, {}),
        ("rel", "P2g", "S9", 3 if q else 4, [], {}),
        ("rel", "P8d", "S10", 5 if q else 6, ["--dirty"] + pr, {}),
        ("rel", "P8t", "S14", 5 if q else 6, ["--prune"], {}),
        ("dbg", "P1", "S0", 4 if q else 6, pr, {}), ("sec", "P1", "S0", 4 if q else 6, pr, {}),
        ("dbg", "P2", "S0", 3 if q else 4, pr, {}), ("sec", "P3r", "S0", 3 if q else 4, pr, {}),
    ]
    grid = [("rel", "entry", not q, {}), ("rel", "align", False, {}), ("dbg", "entry", False, {}), ("sec", "entry", False, {}),
            ("rel", "fillpage", False, {}), ("sec", "fillpage", False, {}), ("dbg", "fillpage", False, {})]
    return mixed_property(ctx, plan, grid,
        rule="P8t from S14: a segment used to its very last slice (7 small pages, 31 pages of 1 MiB, a 512 KiB page); the last pages are released in either order, a 1.5 MiB page is built on the coalesced span that ends exactly at the segment's end, a second passes, forced collect. P8d from S10 with dirtying: a 100 MiB block is filled with 0xFF and released, then 17 MiB and 1 MiB blocks need fresh segments on the arena blocks it occupied (a new segment's header must inherit nothing). P2g from S9: a 2040 MiB block (exactly 64 arena blocks: one whole bitmap field of the 4 GiB arena) next to 17 MiB blocks (blocks above 256 MiB carry their pattern in the first and last 4 KiB and one word per MiB). P1q from S12: page-queue transitions of a small class served through the direct-page table: a 512-byte page heads the full queue, the 1024-byte queue is [B exhausted but not yet looked at, A back from the full queue]; operations malloc(1024), malloc(64), collect, free(i) and free_page_of(i) (every live block of one page in one operation) up to depth D. P8g from S11: three adjacent 3 MiB pages and a 1 MiB guard block in one segment; released in any order they coalesce into one span covering whole 64-slice fields of the segment's commit and purge masks, 9 MiB are allocated over it, collected and purged (also with lazy commit). P8f from S10: a segment filled to its end with 1 MiB pages; release / re-use / collect / clock ticks at its far end (last field of the commit and purge masks). P2 from S9: a 4 GiB arena whose first block holds a live segment and whose blocks 1..63 are taken, so that new segments get arena block indices >= 64 (second bitmap field). fillpage: for every size class up to 1 KiB and seven consecutive pages of it, the page is filled to its very last block while the next slice holds the page of a larger class (first block at the start of the slice); every block is checked against all live ones. inputs: every allocation entry point (30) x boundary size grid x release variant, and the (size, alignment, offset) grid of C03, in carried-over heap states; histories: all sequences of operations of each profile alphabet (P1 page life-cycle {malloc 8K/48, fill, free(i), collect}, P2 spans {64K,100K,1M,17M,40M}, P3 small, P3r realloc, P7t threads, P4h heaps) up to depth D from start states S0..S4; node oracle: every live block's whole usable range holds its pattern, new blocks are disjoint from live ones, aligned, inside accessible memory.",
        assumptions=COMMON_ASSUME + ["free(i) is enumerated for all i while at most `free_window` blocks are live, else for the first and last window/2"])

# ------------------------------------------------------------------------------------------------
# grid enumerations (h_grid)
# ------------------------------------------------------------------------------------------------
def grid_jobs(ctx, plan):
    """plan: list of (variant, mode, full(bool), env)"""
    jobs = []
    for (variant, mode, full, env) in plan:
        b = ctx.build("h_grid", variant)
        args = ["--prop", ctx.pid, "--mode", mode, "--workers", 16] + (["--full"] if full else [])
        tag = f"{variant}/grid:{mode}{'/full' if full else ''}" + ("/" + ",".join(f"{k}={v}" for k, v in env.items()) if env else "")
        jobs.append(dict(bin=b, args=args, env=env, tag=tag, timeout=(400 if ctx.quick else 3000)))
    return jobs

def mixed_property(ctx, seq_plan, grid_plan, rule, assumptions):
    tot, samples, viol, infra, per_run, dl = agg_runs(ctx, grid_jobs(ctx, grid_plan) + seq_jobs(ctx, seq_plan))
    cov = dict(
        evaluations=tot["nodes"], distinct_nontrivial=tot["nontrivial"] + tot["states"],
        states=max(tot["states"] + tot["nontrivial"], 1) if tot["nodes"] else 0, transitions=tot["transitions"], traces_validated_against_impl=tot["nodes"],
        rule=rule + " distinct_nontrivial = (grid cases counted as non-trivial by the harness: moved/over-aligned/large/overflowing cases; every grid case is a distinct argument tuple) + (distinct allocator-state fingerprints of the sequence exploration).",
        samples=samples, exhaustive=not dl, oracle_checks=tot["checks"], runs=per_run,
        explanation="grid cases are all members of a finite argument grid, executed in order inside 16 worker processes (state carries over between cases, so the heap state varies); sequence runs are fork-per-node DFS; everything executes on the real allocator")
    return dict(coverage=cov, assumptions=assumptions, violations=viol, infra=infra)

grid_replay = replay_file

def run_C03(ctx):
    q = ctx.quick
    grid = [("rel", "align", not q, {}), ("sec", "align", False, {})] + ([] if q else [("dbg", "align", True, {})]) + ([("dbg", "align", False, {})] if q else [])
    seq = [("rel", "P5", "S0", 4 if q else 5, [] if q else ["--prune"], {}), ("rel", "P5", "S1", 3 if q else 4, [], {}),
           ("rel", "P5m", "S7", 3 if q else 5, [] if q else ["--prune"], {}), ("rel", "P5m", "S0", 4 if q else 6, [] if q else ["--prune"], {}), ("sec", "P5m", "S7", 3 if q else 4, [], {})]
    return mixed_property(ctx, seq, grid,
        rule="node oracle of every sequence run: contents, no overlap, accessibility and a constant mi_usable_size for every untouched live block. P5m: over-allocated aligned blocks (8292 bytes, alignment 4096: interior pointers) from start state S7 (two pages of that class: the older one has been full, lost blocks and is last in its queue; the newer one is first, free list empty, still extendable: the next allocation moves the older page to the front) and from S0 with a helper thread that allocates two such blocks and terminates. (size, alignment, offset) grid: sizes = boundary grid (bin sizes +-1, page-kind and huge boundaries), alignments 2^0..2^27 (= 4x segment), offsets {0,8,16,24,40,size/2,size} (offset 0 only beyond half a segment), x 12 aligned entry points x 2 free-list phases; each result checked for (p+o)%a==0, usable>=n, overlap, accessibility, full-range pattern, mi_expand, realloc_aligned(_at) keeps alignment+contents, release through every free variant; plus profile P5 sequences (aligned allocs interleaved with frees/realloc_aligned).",
        assumptions=COMMON_ASSUME + ["offsets are multiples of 8 (an odd offset makes the returned pointer itself unaligned, which debug builds reject by design)",
                                     "mi_realloc_aligned is only applied to blocks that already have that alignment (for other blocks mimalloc documents 'use offset of previous allocation')"])

def run_C04(ctx):
    q = ctx.quick
    grid = [("rel", "zchain", not q, {}), ("rel", "zero", not q, {}), ("sec", "zchain", False, {}), ("dbg", "zchain", False, {}), ("sec", "zero", False, {}), ("dbg", "zero", False, {}),
            ("rel", "zchain", False, {"VF_RESET_ZERO": "1", "MIMALLOC_PURGE_DELAY": "0", "MIMALLOC_PURGE_DECOMMITS": "0"}),
            ("rel", "zero", False, {"VF_RESET_ZERO": "0", "MIMALLOC_PURGE_DELAY": "0", "MIMALLOC_PURGE_DECOMMITS": "0"}),
            ("rel", "zero", False, {"MIMALLOC_PURGE_DELAY": "0"})]
    seq = [("rel", "P4z", "S0", 4 if q else 5, ["--dirty"] + ([] if q else ["--prune"]), {}), ("rel", "P4z", "S2", 3 if q else 5, ["--dirty"], {}),
           ("rel", "P4zh", "S0", 3 if q else 4, ["--dirty"], {}), ("rel", "P4z", "S3", 3 if q else 4, ["--dirty"], {}),
           ("rel", "P4z", "S0", 3 if q else 4, ["--dirty"], {"MIMALLOC_PURGE_DELAY": "0", "MIMALLOC_PURGE_DECOMMITS": "0", "VF_RESET_ZERO": "0"})]
    return mixed_property(ctx, seq, grid,
        rule="(zero mode: 21 zero-initialising entry points including aligned forms whose alignment 1/8/16 a plain block satisfies anyway) zchain: every strictly increasing chain of length 2..3 (thorough: ..4) over a size ladder (20 values, thorough 32; incl. 17 MiB, 17 MiB+100, 17 MiB+4000: growth in place inside the slack of a huge block on dirtied arena memory) x 6 rezalloc/recalloc variants on memory of the involved classes dirtied with 0xFF; zero: 16 zero-initialising entry points x boundary size grid x {recycled, after forced collect}; sequences: profile P4z/P4zh (zalloc/calloc/zalloc_aligned/rezalloc/recalloc/free with the dirty-before-free discipline) from S0/S2/S3, also with immediate purge by reset (MADV_FREE keeps contents).",
        assumptions=COMMON_ASSUME + ["zero-tracked blocks are only written within their requested size (the statement is about bytes between the previous and the new *requested* size)"])

def run_C05(ctx):
    q = ctx.quick
    grid = [("rel", "realloc", not q, {}), ("sec", "realloc", False, {}), ("dbg", "realloc", False, {})]
    seq = [("rel", "P3r", "S0", 4 if q else 6, [] if q else ["--prune"], {}), ("rel", "P3r", "S1", 3 if q else 4, [], {}),
           ("rel", "P5m", "S7", 3 if q else 5, [] if q else ["--prune"], {}), ("rel", "P5m", "S0", 4 if q else 6, [] if q else ["--prune"], {})]
    return mixed_property(ctx, seq, grid,
        rule="(new-handler cases: mi_new, mi_new_n, mi_new_nothrow and mi_new_aligned with alignments 64, 4 MiB and 64 MiB must return a block -- with the requested alignment -- after exactly two handler calls when the OS refuses until then) all ordered (old,new) pairs over the boundary size grid x 12 realloc-family variants (quick: mi_realloc on all pairs, the others on 1/6 of them); per case: result non-NULL, usable>=new, first min(old,new) bytes equal, grown part of zero-tracked blocks zero, heap-walk block count unchanged (old released iff pointer changed), new block reported live, mi_expand only within usable; every 7th case additionally a failing call (size > PTRDIFF_MAX / overflowing count) leaves the block live and intact, mi_reallocf frees it; plus P3r sequences.",
        assumptions=COMMON_ASSUME + ["mi_expand is expected to succeed only in builds without padding (rel)"])

def run_C06(ctx):
    q = ctx.quick
    res = run_C06_grid(ctx)
    # the same malformed / oversized requests through the overridden C and C++ entry points of the real override builds (preloaded library, static object)
    try:
        so, dyn, sta = ov_build(ctx)
        for mode in ("preload", "static", "preload-secure"):
            r, rc, err = ov_run(so, dyn, sta, mode, extra=["codes"])
            if r is None: res.setdefault("infra", []).append(f"override run ({mode}, codes) did not run: rc={rc} {err}"); continue
            res["coverage"]["evaluations"] += r["pairs"]; res["coverage"]["samples"].append(f"override build, {mode}: 30 malformed/oversized requests through posix_memalign, reallocarray, calloc and the nothrow operator new forms")
            for v in r["violations"]:
                import hashlib
                rp = os.path.join(ctx.out, "replays", f"C06-ov-{hashlib.sha1((mode + v).encode()).hexdigest()[:8]}.txt")
                open(rp, "w").write(f"# replay file for property C06\nharness ov_test\nmode {mode}\nmsg {v}\n")
                res["violations"].append(dict(key=f"C06:override:{mode}:{v.split(':')[0][:60]}", msg=v, replay=rp))
    except RuntimeError as ex:
        res.setdefault("infra", []).append(str(ex))
    return res

def replay_C06(ctx, path):
    lines = open(path).read().splitlines()
    if not any(l.startswith("harness ov_test") for l in lines): return grid_replay(ctx, path)
    mode = next((l.split()[1] for l in lines if l.startswith("mode ")), "preload")
    msg = next((l[4:] for l in lines if l.startswith("msg ")), "")
    so, dyn, sta = ov_build(ctx)
    res, rc, err = ov_run(so, dyn, sta, mode, extra=["codes"])
    hit = [v for v in (res or {}).get("violations", []) if v.split(":")[0] == msg.split(":")[0]]
    print("REPLAY violation " + hit[0] if hit else "REPLAY no violation")
    return 1 if hit else 0

def run_C06_grid(ctx):
    q = ctx.quick
    grid = [("rel", "badargs", False, {}), ("sec", "badargs", False, {}), ("dbg", "badargs", False, {}), ("rel", "entry", not q, {})]
    return mixed_property(ctx, [], grid,
        rule="(plus: the malformed / oversized requests of the override test -- posix_memalign codes with untouched out-parameter, reallocarray/calloc overflow, every nothrow operator new form with unsatisfiable sizes -- against the real preloaded library, the static override object and the hardened preloaded library) badargs: all (count,size) pairs from a 16-value boundary set (and around SIZE_MAX/size, PTRDIFF_MAX/size) whose product overflows or exceeds PTRDIFF_MAX x 16 count*size entry points; 39 sizes above PTRDIFF_MAX x 22 size entry points; 17 non-power-of-two/zero alignments x 5 sizes x 12 aligned entry points; posix_memalign alignments 1,2,4. Oracle: NULL (posix_memalign EINVAL/ENOMEM with the out-parameter equal to its sentinel, errno for reallocarray/reallocarr), heap-walk block set identical before/after, the block being re-allocated still live and intact. entry: converse -- every allocation entry point x size grid succeeds when the OS refuses nothing.",
        assumptions=COMMON_ASSUME + ["mi_new_n / mi_new_reallocn are excluded: by contract they abort/throw instead of returning NULL",
                                     "realloc_aligned family with alignment <= sizeof(void*) is 'no alignment requested' by design and excluded; debug builds: alignment 0 for mi_memalign/mi_aligned_alloc traps inside an assertion (excluded in the dbg variant)"])

# ------------------------------------------------------------------------------------------------
# C10 (sequential part), C12, C13
# ------------------------------------------------------------------------------------------------
def run_C12(ctx):
    q = ctx.quick
    pr = [] if q else ["--prune"]
    AB = {"MIMALLOC_VISIT_ABANDONED": "1"}
    ABN = {"MIMALLOC_VISIT_ABANDONED": "1", "MIMALLOC_MAX_SEGMENT_RECLAIM": "0"}
    ABO = {"MIMALLOC_VISIT_ABANDONED": "1", "MIMALLOC_MAX_SEGMENT_RECLAIM": "0", "MIMALLOC_DISALLOW_ARENA_ALLOC": "1"}
    plan = [
        ("rel", "P1", "S0", 5 if q else 7, ["--observe", "walk"] + pr, {}), ("rel", "P6w", "S0", 4 if q else 6, ["--observe", "walk"] + pr, {}),
        ("rel", "P6x", "S0", 4 if q else 5, ["--observe", "walk"] + pr, {}), ("rel", "P2", "S0", 3 if q else 4, ["--observe", "walk"], {}),
        ("rel", "P4h", "S0", 4 if q else 6, ["--observe", "walk"] + pr, {}), ("rel", "P1", "S1", 3 if q else 5, ["--observe", "walk"], {}),
        ("rel", "P1", "S3", 3 if q else 5, ["--observe", "walk"], {}), ("rel", "P1", "S4", 3 if q else 5, ["--observe", "walk"], {}),
        ("rel", "P3r", "S0", 3 if q else 4, ["--observe", "walk"], {}), ("rel", "P5", "S0", 3 if q else 4, ["--observe", "walk"], {}),
        ("rel", "P7t", "S0", 4 if q else 5, ["--observe", "walk,abandoned"], AB), ("rel", "P7t", "S5", 4 if q else 5, ["--observe", "abandoned"], ABN),
        ("rel", "P7t", "S0", 4 if q else 5, ["--observe", "abandoned"], ABO),
        # the helper threads' segments land in arena block 127 (last bit of the second bitmap field) and in the third field
        ("rel", "P7t", "S13", 3 if q else 4, ["--observe", "abandoned"], ABN),
        # blocks of exited threads in arena segments and in segments straight from the OS at the same time (40 MiB does not fit a 32 MiB arena reserve)
        ("rel", "P7m", "S0", 3 if q else 4, ["--observe", "abandoned"], envs(ABN, {"MIMALLOC_ARENA_RESERVE": "32MiB"})),
        ("dbg", "P1", "S0", 4 if q else 5, ["--observe", "walk"], {}), ("sec", "P6w", "S0", 3 if q else 5, ["--observe", "walk"], {}),
        ("dbg", "P7t", "S5", 3 if q else 4, ["--observe", "abandoned"], ABN),
    ]
    return seq_property(ctx, plan,
        rule="(start state S13: a 5 GiB arena whose blocks 1..126 are taken, so that abandoned segments sit in arena block 127 -- bit 63 of an odd bitmap field -- and beyond; an operation that does not finish within 120 s is reported as a hang) (a walk of the blocks of terminated threads is stopped at call 1 -- an area callback --, 2, 3 and 4, each followed by a complete walk) abandoned-walk observer additionally: the sub-process counter of abandoned segments equals the segments marked in the arenas plus those linked in the OS list; a walk stopped by the visitor at call 2 / 3 is followed by a complete walk that must equal the first one. All operation sequences of the profiles up to depth D; at every node, in a throw-away fork, every heap of the thread is walked with mi_heap_visit_blocks and compared with the reference model (each live block reported once by an enclosing range, no range without a live block except heap descriptors in the backing heap, area.used sum == visited blocks, early stop after k visitor calls for k=1..6); hole patterns: 8-block pages (all masks reachable), 64 x 1 KiB (one full bitmap word) and 127 x 512 B pages with free_every(k,phase); abandoned walk: blocks of exited threads reported exactly once by mi_abandoned_visit_blocks or by the adopting heap, for arena segments (one and two bitmap fields, start state S5) and OS segments.",
        assumptions=COMMON_ASSUME + ["states with a pending cross-thread free (remote_free not yet followed by a collect of that heap) only require that no live block is missing; extra reports and used counts are outside the statement there",
                                     "the abandoned-walk runs set MIMALLOC_VISIT_ABANDONED=1 (required by the API) and, where stated, MIMALLOC_MAX_SEGMENT_RECLAIM=0 so that several abandoned segments coexist"])

OPTS13 = [
    ("MIMALLOC_PURGE_DELAY", ["-1", "0", "5"]), ("MIMALLOC_PURGE_DECOMMITS", ["0", "1"]), ("MIMALLOC_EAGER_COMMIT", ["0", "1"]),
    ("MIMALLOC_EAGER_COMMIT_DELAY", ["0", "1"]), ("MIMALLOC_ARENA_EAGER_COMMIT", ["0", "1", "2"]), ("MIMALLOC_DISALLOW_ARENA_ALLOC", ["0", "1"]),
    ("MIMALLOC_ARENA_RESERVE", ["64MiB", "1GiB"]), ("MIMALLOC_ABANDONED_RECLAIM_ON_FREE", ["0", "1"]), ("MIMALLOC_TARGET_SEGMENTS_PER_THREAD", ["0", "2"]),
    ("VF_RESET_ZERO", ["0", "1"]),
]
def pairwise(opts, seed=0):
    """greedy pairwise covering array; deterministic"""
    import itertools, random
    rnd = random.Random(seed)
    names = [o[0] for o in opts]
    uncovered = set()
    for (i, a), (j, b) in itertools.combinations(list(enumerate(opts)), 2):
        for va in a[1]:
            for vb in b[1]: uncovered.add((i, va, j, vb))
    rows = []
    while uncovered:
        best, bestc = None, -1
        for _ in range(60):
            (i, va, j, vb) = rnd.choice(sorted(uncovered))
            row = [rnd.choice(o[1]) for o in opts]; row[i] = va; row[j] = vb
            c = sum(1 for (x, vx, y, vy) in uncovered if row[x] == vx and row[y] == vy)
            if c > bestc: best, bestc = row, c
        rows.append(best)
        uncovered = {(x, vx, y, vy) for (x, vx, y, vy) in uncovered if not (best[x] == vx and best[y] == vy)}
    return [dict(zip(names, r)) for r in rows]

def all_configs(opts):
    import itertools
    names = [o[0] for o in opts]
    return [dict(zip(names, vals)) for vals in itertools.product(*[o[1] for o in opts])]

def run_C13(ctx):
    q = ctx.quick
    cfgs = pairwise(OPTS13, seed=ctx.seed)
    plan = []
    for k, env in enumerate(cfgs):
        variant = ("rel", "dbg", "sec")[k % 3]
        plan.append((variant, "P8o", "S0", 4 if q else 5, ["--observe", "monitor,walk"], env))
        if not q or k % 3 == 0: plan.append(("rel" if variant != "rel" else "dbg", "P7t", "S0", 3 if q else 4, ["--observe", "monitor"], env))
    # huge blocks spanning several arena blocks (claims that mix committed and never committed blocks), and a segment filled to its end
    for env in ({"MIMALLOC_ARENA_EAGER_COMMIT": "0"}, LAZY, {}, {"MIMALLOC_ARENA_EAGER_COMMIT": "0", "MIMALLOC_PURGE_DELAY": "0"}):
        plan.append(("rel", "P8h", "S0", 3 if q else 4, ["--observe", "monitor"], env))
    plan.append(("dbg", "P8h", "S0", 3, ["--observe", "monitor"], {"MIMALLOC_ARENA_EAGER_COMMIT": "0"}))
    # reclaim-on-free with segments straight from the OS: a forced collect that releases the last page of a segment (behind an adopted page) returns the segment to the OS at once
    plan.append(("rel", "P7t", "S0", 5 if q else 6, ["--observe", "monitor"] + ([] if q else ["--prune"]), {"MIMALLOC_ABANDONED_RECLAIM_ON_FREE": "1", "MIMALLOC_DISALLOW_ARENA_ALLOC": "1"}))
    plan.append(("rel", "P7t", "S0", 4 if q else 5, ["--observe", "monitor"], {"MIMALLOC_ABANDONED_RECLAIM_ON_FREE": "1", "MIMALLOC_PURGE_DELAY": "0"}))
    plan.append(("rel", "P8f", "S10", 3 if q else 4, ["--observe", "monitor"], {}))
    # lazy commit of a caller-provided arena registered through the six-argument mi_manage_os_memory (uncommitted: committed before use; committed + immediate purge)
    plan.append(("rel", "P6a", "Sm0", 4, [], {})); plan.append(("rel", "P6a", "Sm1", 4, [], {"MIMALLOC_PURGE_DELAY": "0"}))
    plan.append(("rel", "P8g", "S11", 3 if q else 4, ["--observe", "monitor"], LAZY)); plan.append(("sec", "P8g", "S11", 3, ["--observe", "monitor"], {"MIMALLOC_EAGER_COMMIT": "0"}))
    if not q:
        for k, env in enumerate(all_configs(OPTS13[:9])):     # full product of the 9 allocator options (576) at small depth
            plan.append((("rel", "dbg", "sec")[k % 3], "P8o", "S0", 3, ["--observe", "monitor"], env))
    # concurrent clause: purges racing claims/allocations of other threads, under the purge-related settings
    P0 = {"MIMALLOC_PURGE_DELAY": "0"}; P0R = {"MIMALLOC_PURGE_DELAY": "0", "MIMALLOC_PURGE_DECOMMITS": "0", "VF_RESET_ZERO": "1"}
    cplan = [("rel", "A2", 2, 0, P0), ("rel", "A2", 2, 0, P0R), ("rel", "A2", 2, 0, {}), ("rel", "A1", 2 if not q else 1, 0, P0), ("dbg", "A2", 1 if q else 2, 0, P0),
             ("rel", "H4", 2, 0, P0), ("rel", "E1", 1 if q else 2, 0, envs(P0, {"MIMALLOC_ABANDONED_RECLAIM_ON_FREE": "1"})), ("rel", "H2", 1 if q else 2, 0, envs(P0, LAZY)),
             ("dbg", "H4n", 2, 0, {}), ("sec", "H4n", 2, 0, {}), ("rel", "H4n", 2, 0, {"VF_RESET_ZERO": "1"}), ("dbg", "H4", 1 if q else 2, 0, {}),
             ("rel", "AB1", 2, 0, RF), ("dbg", "AB1", 1 if q else 2, 0, RF), ("rel", "AB1", 1 if q else 2, 0, envs(RF, {"MIMALLOC_PURGE_DECOMMITS": "0", "VF_RESET_ZERO": "1"}))]
    # per-thread segment target: forced abandonment of a segment that the flush of the delayed list empties on the way
    T2 = {"MIMALLOC_TARGET_SEGMENTS_PER_THREAD": "2"}
    cplan += [("rel", "E3d", 2, 0, T2), ("rel", "E3d", 1 if q else 2, 0, envs(T2, NOARENA)), ("dbg", "E3d", 1, 0, T2), ("rel", "E3c", 1 if q else 2, 0, envs(T2, RF, P0))]
    race = race_jobs(ctx, [("A2", P0), ("AB1", RF), ("H4", P0)])
    res = conc_property(ctx, conc_jobs(ctx, cplan), extra_jobs=seq_jobs(ctx, plan) + race,
        rule=RACE_NOTE.strip() + " E3d (target_segments_per_thread=2; also with segments straight from the OS): the other thread frees every block of the segment that is about to be force-abandoned, so that flushing the delayed list empties it while the loop over its pages still runs. The C01/C04/C05/C12 oracles re-run under option configurations: quick = a pairwise-covering set of {purge_delay -1/0/5, purge_decommits, eager_commit, eager_commit_delay, arena_eager_commit 0/1/2, disallow_arena_alloc, arena_reserve 64MiB/1GiB, abandoned_reclaim_on_free, target_segments_per_thread 0/2, MADV_FREE keeps/drops contents} (thorough: + the full product of the nine allocator options) x all sequences of profile P8o {malloc 8K/64K/1M/17M, zalloc 8K, realloc, free(i), collect(0/1), tick(+1000ms)} (and P7t with threads) up to depth D, alternating rel/dbg/sec builds; additional monitor inside the OS shim: no madvise(DONTNEED/FREE), mprotect(PROT_NONE) or munmap range may intersect a live block; debug/secure builds revoke access on decommit so any touch of decommitted memory is a crash. Concurrent clause (schedule explorer): arena free/alloc/collect races (A1, A2) and remote-free / thread-exit programs (H2, H4, E1) with immediate purging by decommit and by reset: a purge that hits memory another thread just claimed destroys that thread's pattern.",
        assumptions=COMMON_ASSUME + SCHED_ASSUME + ["options are set through MIMALLOC_* environment variables and parsed by the real option code at process start"])
    res["coverage"]["configurations"] = len(cfgs)
    res["coverage"]["configuration_samples"] = cfgs[:3]
    return res

# ------------------------------------------------------------------------------------------------
# OS-level checks (h_os): C07 fault enumeration, C11 footprint, C18 purge scenarios
# ------------------------------------------------------------------------------------------------
def os_jobs(ctx, plan):
    """plan: list of (variant, mode, flags, env)"""
    jobs = []
    for (variant, mode, flags, env) in plan:
        b = ctx.build("h_os", variant)
        args = ["--prop", ctx.pid, "--mode", mode, "--deadline", ctx.deadline or (240 if ctx.quick else 2400)] + list(flags)
        tag = f"{variant}/os:{mode}" + ("/" + ",".join(f.lstrip('-') for f in flags) if flags else "") + ("/" + ",".join(f"{k.replace('MIMALLOC_','').lower()}={v}" for k, v in env.items()) if env else "/default")
        jobs.append(dict(bin=b, args=args, env=env, tag=tag, timeout=(600 if ctx.quick else 3000)))
    return jobs

def os_property(ctx, plan, rule, assumptions, level, parallel=4):
    tot, samples, viol, infra, per_run, dl = agg_runs(ctx, os_jobs(ctx, plan), parallel=parallel, sample_limit=8)
    cov = dict(evaluations=tot["nodes"], distinct_nontrivial=tot["nontrivial"], rule=rule, samples=samples, exhaustive=not dl,
               oracle_checks=tot["checks"], runs=per_run, configurations=len(plan))
    if level == "model_checking":
        cov.update(states=max(tot["nodes"], 1), transitions=max(tot["transitions"], 1), traces_validated_against_impl=tot["nodes"])
    if dl: cov["deadline_hit"] = True
    return dict(coverage=cov, assumptions=assumptions, violations=viol, infra=infra)

LAZY = {"MIMALLOC_EAGER_COMMIT": "0", "MIMALLOC_ARENA_EAGER_COMMIT": "0"}
def envs(*ds):
    e = {}
    for d in ds: e.update(d)
    return e

def run_C07(ctx):
    q = ctx.quick
    fl = [] if q else ["--pairs"]
    P0 = {"MIMALLOC_PURGE_DELAY": "0"}; NOA = {"MIMALLOC_DISALLOW_ARENA_ALLOC": "1"}; SMALL = {"MIMALLOC_ARENA_RESERVE": "64MiB"}; ALAZY = {"MIMALLOC_ARENA_EAGER_COMMIT": "0"}
    plan = [("rel", "fault", fl, {}), ("rel", "fault", fl, envs(LAZY, P0)), ("rel", "fault", fl, NOA), ("rel", "fault", fl, envs(LAZY, P0, NOA)),
            ("sec", "fault", fl, {}), ("sec", "fault", [], envs(LAZY, P0)), ("dbg", "fault", fl, {}), ("dbg", "fault", [], envs(LAZY, P0)),
            # arena memory committed on demand while segments commit eagerly: a refused arena-level commit is followed by the commit of the descriptor slices
            ("rel", "fault", fl, ALAZY), ("sec", "fault", [], ALAZY),
            # large OS pages allowed: the modelled OS refuses every MAP_HUGETLB request, mimalloc falls back to ordinary pages
            ("rel", "fault", [], {"MIMALLOC_ALLOW_LARGE_OS_PAGES": "1"}),
            # the OS does not honour address hints (misaligned results: release + over-allocate + trim), with and without arenas
            ("rel", "fault", [], {"VF_IGNORE_HINT": "1"}), ("rel", "fault", [], envs(NOA, {"VF_IGNORE_HINT": "1"})),
            # pairs of failures for one workload (also exercises the known finding "fresh segment kept without pages")
            ("rel", "fault", ["--pairs", "--only-workload", "realloc"], envs(LAZY, P0, NOA)),
            # reservation of huge OS pages with every OS call refused in turn
            ("rel", "fault", ["--only-workload", "hugepages"], {}), ("sec", "fault", ["--only-workload", "hugepages"], {}), ("rel", "fault", ["--pairs", "--only-workload", "hugepages"], {})]
    if not q:
        plan += [("rel", "fault", fl, envs(SMALL, P0, {"MIMALLOC_PURGE_DECOMMITS": "0"})), ("sec", "fault", [], NOA), ("dbg", "fault", [], NOA), ("rel", "fault", [], envs(LAZY, SMALL))]
    return os_property(ctx, plan, level="fault_enumeration",
        rule="(two configurations let the modelled OS ignore address hints: hinted mappings come back misaligned and are replaced by trimmed over-allocations) for each of 11 workloads (small/medium churn, large, huge, over-aligned huge, threads with exit+reclaim, heaps new/delete/destroy, realloc chains, mixed, 32 arena reservations of 32 MiB followed by blocks of three kinds, a reservation of three 1 GiB huge OS pages -- granted by the modelled OS for the duration of that call only, each refusable -- followed by 40 blocks of 30 MiB; in jobs of its own, string duplication -- mi_strdup / mi_strndup / mi_heap_strdup / mi_heap_strndup of 17 MiB, 3 MiB, 100 KiB and 48-byte strings, which must answer a refusal with NULL) the fault-free run counts its N OS calls (mmap/munmap/mprotect/madvise through the shim); then every k < N is run with (a) a single refusal at call k and (b) persistent refusal from call k of mmap / mprotect / madvise / munmap / all kinds (thorough: also every pair k1<k2 of single refusals), under several option settings (default, lazy commit + immediate purge, arenas disabled, small arena) and builds. Oracle per case: no crash; every API result is NULL or a block that passes the full write/read/overlap oracle; live blocks keep their contents; only out-of-memory errors are reported; after the plan is lifted a recovery script allocates and frees blocks of all classes and after a forced collect nothing obtained directly from the OS remains mapped (minus ranges whose munmap the plan itself refused). distinct_nontrivial = cases in which at least one OS call was actually refused.",
        assumptions=COMMON_ASSUME + ["refusals are ENOMEM (mmap: MAP_FAILED) / EINVAL (munmap); madvise never answers EAGAIN (mimalloc retries EAGAIN forever by design)",
                                     "debug builds: madvise refusals are excluded (a failing decommit is an intended debug assertion)"])

def run_C11(ctx):
    q = ctx.quick
    base = [{}, {"MIMALLOC_DISALLOW_ARENA_ALLOC": "1"}, {"MIMALLOC_ARENA_RESERVE": "64MiB"}, {"MIMALLOC_PURGE_DELAY": "0"}, {"MIMALLOC_PURGE_DELAY": "-1"},
            {"MIMALLOC_PURGE_DECOMMITS": "0", "VF_RESET_ZERO": "1"}, LAZY, envs(LAZY, {"MIMALLOC_DISALLOW_ARENA_ALLOC": "1", "MIMALLOC_PURGE_DELAY": "0"})]
    # (the last configuration is the one of the known finding: reset-mode purge with fully lazy commit)
    base.insert(0, {"MIMALLOC_ALLOW_LARGE_OS_PAGES": "1"})     # the modelled OS refuses MAP_HUGETLB: ordinary pages are used and must be given back as usual
    base.append(envs({"MIMALLOC_PURGE_DELAY": "10", "MIMALLOC_PURGE_DECOMMITS": "0", "VF_RESET_ZERO": "1"}, LAZY))
    # environment answer "address hints are not honoured": hinted mappings land misaligned, mimalloc gives them back and over-allocates
    base.insert(1, {"VF_IGNORE_HINT": "1"}); base.insert(2, {"VF_IGNORE_HINT": "1", "MIMALLOC_DISALLOW_ARENA_ALLOC": "1"})
    plan = [("rel", "footprint", [], e) for e in base] + [("sec", "footprint", [], {}), ("dbg", "footprint", [], {}), ("dbg", "footprint", [], {"MIMALLOC_DISALLOW_ARENA_ALLOC": "1"})]
    # arena reservations that fail half-way (descriptor allocation refused after the region was mapped): the region must be handed back
    plan += [("rel", "fault", ["--only-workload", "arenas"], {}), ("sec", "fault", ["--only-workload", "arenas"], {})]
    if not q:
        import itertools
        for a, d, dc, lz in itertools.product([{}, {"MIMALLOC_DISALLOW_ARENA_ALLOC": "1"}, {"MIMALLOC_ARENA_RESERVE": "64MiB"}], ["10", "0", "-1"], ["1", "0"], [{}, LAZY]):
            for v in ("rel", "dbg", "sec"):
                plan.append((v, "footprint", [], envs(a, {"MIMALLOC_PURGE_DELAY": d, "MIMALLOC_PURGE_DECOMMITS": dc, "VF_RESET_ZERO": "1"}, lz)))
            if dc == "1": plan.append(("rel", "footprint", [], envs(a, {"MIMALLOC_PURGE_DELAY": d, "VF_IGNORE_HINT": "1"}, lz)))
    return os_property(ctx, plan, level="model_checking", parallel=4,
        rule="(configurations with VF_IGNORE_HINT=1: the modelled OS does not honour address hints -- a hinted mapping lands 68 KiB past a 32 MiB boundary --, so that mimalloc has to give it back, over-allocate and trim) (fault runs of the workload arenas: 32 x mi_reserve_os_memory_ex(32 MiB) -- the arena descriptors outgrow the static metadata area so that later ones are one-page OS allocations -- with every OS call refused once / persistently from there on: a region that was mapped but could not be registered must be unmapped again; after recovery + free-all + forced collect nothing outside arenas may stay mapped) (workload staggered: 20 + 100 + 40 MiB; the 100 MiB block is released and force-collected while the lower block is live, then the next, then everything) 9 allocate-everything/free-everything workloads (small, large, huge 17/40/100/33 MiB, over-aligned huge up to 128 MiB alignment, 8 and 40 sequential threads that exit with live blocks, heaps, realloc chains, mixed) x option configurations (arenas enabled / disabled / too small, purge delay 10/0/-1, decommit or reset, eager or lazy commit) x 4 repetitions; after each repetition + mi_collect(true) the shim's mapping table is inspected: (1) no mapping outside arena areas survives except segment-map parts and arena descriptors, (2) unless purge_delay=-1 no page inside an arena is resident (mincore), (3) total mapped bytes and resident bytes do not grow from repetition r to r+1.",
        assumptions=COMMON_ASSUME + ["threads of the multi-threaded workloads run one after the other (deterministic schedule)", "bounded to 4 repetitions (the mapped-byte sequence is constant from repetition 1 on in every run, reported in the samples)"])

def run_C18(ctx):
    q = ctx.quick
    import itertools
    plan = []
    for d, dc, m in itertools.product(["-1", "0", "5", "10"], ["1", "0"], ["1", "10"]):
        e = {"MIMALLOC_PURGE_DELAY": d, "MIMALLOC_PURGE_DECOMMITS": dc, "MIMALLOC_ARENA_PURGE_MULT": m, "VF_RESET_ZERO": "1"}
        plan.append(("rel", "purge", [], e))
        if not q or (d, dc, m) in (("10", "1", "10"), ("0", "1", "1"), ("5", "0", "10"), ("-1", "1", "10")):
            plan.append(("dbg", "purge", [], e)); plan.append(("sec", "purge", [], e))
        if not q or m == "10":
            plan.append(("rel", "purge", [], envs(e, {"MIMALLOC_DISALLOW_ARENA_ALLOC": "1"})))
            plan.append(("rel", "purge", [], envs(e, {"MIMALLOC_ARENA_RESERVE": "64MiB"})))
        # a 4 GiB arena (two bitmap fields and more): the scenario with a huge segment across a field boundary only exists here
        if (m == "10" and d in ("0", "10")) or not q: plan.append(("rel", "purge", [], envs(e, {"MIMALLOC_ARENA_RESERVE": "4GiB"})))
        if not q and d != "-1": plan.append(("sec", "purge", [], envs(e, {"MIMALLOC_ARENA_RESERVE": "4GiB"})))
        # lazily committed segments and arenas: a released page may coalesce with spans that were never committed
        if (not q or m == "10") and d != "-1":
            plan.append(("rel", "purge", [], envs(e, LAZY)))
            if not q or dc == "1": plan.append(("rel", "purge", [], envs(e, LAZY, {"MIMALLOC_DISALLOW_ARENA_ALLOC": "1"})))
    return os_property(ctx, plan, level="model_checking", parallel=8,
        rule="(also with lazily committed segments and arenas, where a released page coalesces with spans that were never committed) scenario enumeration with the virtual clock: {what becomes unused: the last page of a size class (a 512 KiB page of 32 KiB blocks: mimalloc retires it for four fresh-page cycles; ordinary allocations alone -- no collect -- must release it and, a delay later, the release of another page must give its range back), an 80 MiB segment that lies across the boundary of two bitmap fields of a 4 GiB arena (configurations with MIMALLOC_ARENA_RESERVE=4GiB; elsewhere the kind is void), a 1 MiB page of an abandoned segment (its owner exited with two live 1 MiB blocks, another thread frees one: a non-forced collect that visits the segment releases the page, and a second one a delay later must give it back), a 1 MiB page inside a live segment, a whole (huge) segment, everything, four huge segments (one per arena when arenas are 64 MiB: a non-forced pass purges at most two arenas and must stay armed, so three passes a delay period apart have to return all four), four non-adjacent pages of one segment, the same four pages with one of the spans taken and released again (delay+1000)/(delay-extend)+2 times before any time passes (re-use must re-arm the expiry, not accumulate it)} x {later activity: free another page of the segment, allocate in the segment, alloc+free a 40 MiB block, mi_collect(false), small fast-path traffic (negative control)} x {purge_delay -1/0/5/10} x {decommit, reset} x {arena_purge_mult 1, 10} x {arenas on, off, small}. Oracle from the shim's call log: delay 0 -> the freed range is covered by madvise/munmap before the freeing call returns; delay d>0 -> no purge of the range before the clock passes d (d*mult for whole segments) whatever happens, and after it has passed the activities that reach a purge point (page: free of another page; segment: any arena free or non-forced collect) return the range without a forced collect; delay -1 -> no purge call at all, even under mi_collect(true).",
        assumptions=COMMON_ASSUME + ["time is the shim's virtual clock", "allocating inside a segment re-arms its purge delay by design, so that activity is recorded as a control only"])

# ------------------------------------------------------------------------------------------------
# schedule exploration (h_conc, built with -DVF_SCHED): C02, C08, C09, C10 (concurrent part), C14
# ------------------------------------------------------------------------------------------------
def conc_jobs(ctx, plan, harness="h_conc"):
    """plan: list of (variant, prog or ("family", lo, hi), bound, sbound, env)"""
    jobs = []
    for (variant, prog, bound, sbound, env) in plan:
        b = ctx.build(harness, variant, sched=True)
        if isinstance(prog, tuple): pa = ["--family-lo", prog[1], "--family-hi", prog[2]]; pn = f"family[{prog[1]}:{prog[2]})"
        else: pa = ["--prog", prog]; pn = prog
        args = ["--prop", ctx.pid] + pa + ["--bound", bound, "--sbound", sbound, "--par", 16, "--deadline", ctx.deadline or (150 if ctx.quick else 2400)]
        tag = f"{variant}/{pn}/b{bound}s{sbound}" + ("/" + ",".join(f"{k.replace('MIMALLOC_','').lower()}={v}" for k, v in env.items()) if env else "")
        jobs.append(dict(bin=b, args=args, env=env, tag=tag, timeout=(400 if ctx.quick else 3000)))
    return jobs

def race_jobs(ctx, progs, harness="h_conc"):
    """supplementary race pass (build variant tsan): progs = list of (prog or ("family", lo, hi), env); free-running threads under
    ThreadSanitizer, N runs per program; a report becomes a `data-race` violation whose message quotes the first report"""
    jobs = []
    b = ctx.build(harness, "tsan", sched=True)
    n = 20 if ctx.quick else 300
    for i, (prog, env) in enumerate(progs):
        if isinstance(prog, tuple): pa = ["--family-lo", prog[1], "--family-hi", prog[2], "--race", 1 if ctx.quick else 5]; pn = f"family[{prog[1]}:{prog[2]})"
        else: pa = ["--prog", prog, "--race", n]; pn = prog
        prefix = os.path.join(ctx.out, "replays", f"tsan-{ctx.pid}-{pn.replace('[', '').replace(')', '').replace(':', '-')}-{os.getpid()}-{i}")
        e = envs(env, {"TSAN_OPTIONS": f"exitcode=66 halt_on_error=0 report_signal_unsafe=0 log_path={prefix}"})
        jobs.append(dict(bin=b, args=["--prop", ctx.pid] + pa + ["--race-log", prefix], env=e, tag=f"tsan/{pn}/race", timeout=(600 if ctx.quick else 3000)))
    return jobs

RACE_NOTE = (" Race pass (supplementary, sampling; it guards the premise of the schedule exploration and decides nothing about the explored schedules): the same program bodies are run with free-running threads under ThreadSanitizer"
             " (quick: 20 runs per program, thorough: 300; generated programs 1 / 5 runs each); the scheduler's hand-offs are announced to the sanitizer per hand-off word; any report is a violation `data-race`."
             " This is what sees plain (non-atomic) accesses that the token scheduler does not interleave, and memory orders weaker than the code states (a release turned into relaxed on the cross-thread free list is reported in 19 of 20 runs).")

def conc_property(ctx, jobs, rule, assumptions, extra_jobs=()):
    tot, samples, viol, infra, per_run, dl = agg_runs(ctx, list(jobs) + list(extra_jobs), parallel=2, sample_limit=8)
    ex = sum(r["extra"].get("executions", 0) for r in per_run)
    cps = sum(r["extra"].get("choice_points", 0) for r in per_run)
    ops = sum(r["extra"].get("instrumented_ops", 0) for r in per_run)
    outc = sum(r["extra"].get("distinct_outcomes", 0) for r in per_run)
    bmin = min([r["extra"].get("bound_completed", 0) for r in per_run if "bound_completed" in r["extra"]] or [0])
    cov = dict(
        evaluations=tot["nodes"], distinct_nontrivial=max(tot["states"], outc),
        states=max(tot["states"], outc, 1), transitions=max(cps + (tot["transitions"] - cps if tot["transitions"] > cps else 0), 1), traces_validated_against_impl=tot["nodes"],
        rule=rule + " states = number of distinct execution outcomes (hash of what every thread observed: returned addresses, result codes and the state of its heap when it finished), summed over programs (plus distinct allocator-state fingerprints of sequential runs where a plan has them); transitions = scheduling decisions taken at choice points; every execution is a run of the real allocator under the token scheduler, so all explored schedules are validated against the implementation by construction.",
        samples=samples, exhaustive=not dl, executions=ex, choice_points=cps, instrumented_operations=ops, min_bound_completed=bmin,
        oracle_checks=tot["checks"], runs=per_run,
        race_pass=dict(runs=sum(r["extra"].get("race_runs", 0) for r in per_run), flagged=sum(r["extra"].get("race_flagged_runs", 0) for r in per_run)),
        explanation="stateless exploration (iterative context bounding): for each preemption bound 0..B every schedule with at most that many preemptions (and at most S spurious weak-CAS failures) is executed in a fresh forked process; operations on addresses that only one thread touches are fused with the next operation, the conflict set is re-validated after every pass and the pass repeated until it is stable")
    if dl: cov["deadline_hit"] = True
    return dict(coverage=cov, assumptions=assumptions, violations=viol, infra=infra)

SCHED_ASSUME = [
    "sequentially consistent interleavings at the granularity of mimalloc's C11 atomic operations, mutex operations and spin-loop yields (weak-memory reorderings are outside this technique)",
    "preemption-bounded: schedules with more preemptions than the completed bound are not covered; spin-loop yields: the first 6 consecutive yields of a thread are ordinary choice points, afterwards the thread is descheduled until another thread made a step",
    "plain (non-macro) stores to _Atomic fields are not scheduling points; statistics counters are silent",
    "2-4 threads with 1-3 operations each; blocks are handed between threads through shared slots of the harness",
]
RF = {"MIMALLOC_ABANDONED_RECLAIM_ON_FREE": "1"}
NOARENA = {"MIMALLOC_DISALLOW_ARENA_ALLOC": "1"}
NORECL = {"MIMALLOC_MAX_SEGMENT_RECLAIM": "0"}    # no adoption while searching for a segment: several abandoned segments coexist (adoption by free still works)

def run_C02(ctx):
    q = ctx.quick
    B = 2
    plan = [("rel", p, B, 1, {}) for p in ("H1", "H2", "H3", "H4", "H5", "D1")] + [("rel", "E5", B, 1, RF), ("rel", "E1", B, 1, RF), ("rel", "H4", B, 0, {"VF_RESET_ZERO": "1"}), ("rel", "AB1", B, 0, RF), ("rel", "AB2", B, 0, RF), ("dbg", "H4n", B, 0, {}), ("sec", "H4n", 1 if q else B, 0, {}), ("rel", "H6", B, 1, {}), ("dbg", "H6", 1 if q else B, 0, {})]
    plan += [("dbg", "H2", 1 if q else 2, 1, {}), ("sec", "H3", 1 if q else 2, 1, {})]
    TGT = envs(RF, {"MIMALLOC_TARGET_SEGMENTS_PER_THREAD": "2"})
    plan += [("rel", "E3c", 1 if q else 2, 0, TGT), ("dbg", "E3c", 1, 0, TGT), ("rel", "E3d", 2, 0, TGT)]
    plan += [(v, p, 2 if q else 3, 0, {}) for v in ("dbg", "sec") for p in ("H7", "H7f")]
    if q: plan += [("rel", ("family", 0, 700, ), 1, 0, {})]
    else: plan += [("rel", ("family", 0, 750), 2, 1, {}), ("rel", "H2", 3, 2, {}), ("rel", "H3", 3, 2, {}), ("rel", "H1", 3, 2, {}), ("rel", "H5", 3, 2, {}), ("dbg", "H5", 2, 1, {}), ("sec", "H2", 2, 1, {})]
    race = race_jobs(ctx, [(p, {}) for p in ("H1", "H2", "H3", "H4", "H5", "D1")] + [("E5", RF), ("E1", RF), (("family", 0, 700 if q else 750), {})])
    # a clause that needs no interleaving: memory of a released block re-used for the header of another thread's / a later segment
    reuse = seq_jobs(ctx, [("rel", "P8d", "S10", 5, ["--dirty"], {})])
    return conc_property(ctx, conc_jobs(ctx, plan), extra_jobs=race + reuse,
        rule=RACE_NOTE.strip() + " Programs: H7/H7f (debug and secure builds: blocks of 1..7 bytes between live 8-byte neighbours are freed by another thread -- the build has to make room for its free-list link inside them -- while the owner allocates, frees and collects; H7f with the page in the full queue so that the frees pass through the owner's delayed list), E3c (target_segments_per_thread=2, reclaim-on-free: a thread at its segment target has a page in the full queue with a cross-thread free pending in the heap's delayed list and an empty size queue; an allocation that needs a fresh segment force-abandons that page's segment; the other thread adopts it by freeing into it; both then allocate from the class), AB1/AB2 (an abandoned segment whose pending purge is carried out by a visiting thread -- forced collect / search for a segment that finds it unsuitable -- while another thread adopts it by reclaim-on-free and allocates in the span), H1 (remote frees into a page with free blocks vs owner malloc through fast and generic path), H2 (page in the full queue: first remote free goes to the heap's delayed list, second to the page list, vs owner collect+malloc, 3 threads), H3 (two full pages, frees racing the owner's delayed-free take-over), H4 (huge block freed remotely vs owner collect/alloc), H5 (last blocks of a full page freed remotely and locally), D1 (heap delete vs frees), E1/E5 (frees into abandoned segments with reclaim-on-free), and a generated family: every program with 2 threads x 2 ops or 3 threads x 1 op over {malloc 8K, free a, free b, collect(0), collect(1)} on two shared blocks of one full page (750 programs). All interleavings up to the preemption bound (quick 2; family 1) with up to 1 spurious weak-CAS failure. Oracle: a block leaves the live set immediately before its free call and enters it after malloc returns; every returned range must be disjoint from all live blocks; every live block's full usable range must hold its pattern after every operation of every thread; no crash, assertion or error callback.",
        assumptions=COMMON_ASSUME[:2] + SCHED_ASSUME)

def run_C08(ctx):
    q = ctx.quick
    plan = [("rel", p, 2, 1, {}) for p in ("H2", "H3", "H5", "D1", "D3")] + [("rel", "PC", 2, 0, {}), ("rel", "R1", 2 if q else 3, 0, RF), ("rel", "R2", 2 if q else 3, 0, RF), ("rel", "R3", 2 if q else 3, 0, {}), ("sec", "R3", 1 if q else 2, 0, {}), ("rel", "R4", 2 if q else 3, 0, {}), ("dbg", "R4", 1 if q else 2, 0, {}), ("rel", "R5", 1, 0, RF), ("dbg", "R5", 1, 0, RF)] + ([] if q else [("rel", "PCs", 3, 0, {})])
    plan += [("dbg", "H2", 1 if q else 2, 1, {})]
    # frees racing with the owner's exit: nothing may be lost either (final leak check of the E programs)
    plan += [("rel", "E1", 2, 0, {}), ("rel", "E1", 2, 0, RF), ("rel", "E5", 2, 0, RF)]
    if q: plan += [("rel", ("family", 0, 700), 1, 0, {})]
    else: plan += [("rel", ("family", 0, 750), 2, 1, {}), ("rel", "H2", 3, 1, {}), ("rel", "H3", 3, 2, {}), ("sec", "H3", 2, 1, {})]
    race = race_jobs(ctx, [(p, {}) for p in ("H2", "H3", "H5", "D1", "D3", "PC")] + [("R1", RF), ("R2", RF)])
    return conc_property(ctx, conc_jobs(ctx, plan), extra_jobs=race,
        rule=RACE_NOTE.strip() + " R5 (reclaim-on-free, bound 1: three threads): a page of an exiting thread becomes empty only during the exit while its segment survives; the adopter builds a new page in the recycled slice, fills it and a second page; three remote frees into the first must be re-usable without a new page. R4: a small class (1024 bytes, served by the fast path through the direct-page table, so a page that hands out its last block stays unseen at the head of its queue): page A in the full queue, head page B exhausted; another thread frees three blocks of A; the owner's next allocations must find A behind B instead of taking a fresh page. R3: as R1 without adoption, and the page that becomes full also holds a live over-allocated aligned block (interior pointer, page flag has_aligned): the remote frees must make it usable again all the same. A (nothing lost): programs H2, H3, H5, D1, D3 and the generated family (see C02): after the explored phase every remaining block is freed, the owner runs mi_heap_collect(heap, true) and then its heap must hold no page (page_count == 0 and no area with used > 0). B (no blow-up): producer/consumer PC: rounds of 8 blocks of 8 KiB (one page), the producer starts round r only after the consumer freed round r-2, six rounds, the owner never collects; the number of pages held by the owner after each round must stay <= 5 (3 pages of live/in-flight blocks + warm-up page + one retired page) in every interleaving (a stuck page per round gives >= 7).",
        assumptions=COMMON_ASSUME[:2] + SCHED_ASSUME + ["PC sets generic_count=99 before each round so that the administrative step that mimalloc performs every 100 generic allocations happens once per round (time compression of a long run)", "the no-blow-up clause is checked for six rounds"])

def run_C09(ctx):
    q = ctx.quick
    ALL = {"MIMALLOC_DISALLOW_ARENA_ALLOC": "1", "MIMALLOC_ABANDONED_RECLAIM_ON_FREE": "1", "MIMALLOC_VISIT_ABANDONED": "1"}
    plan = []
    for env in ({}, RF, NOARENA, ALL):
        for p in ("E1", "E4", "E5"): plan.append(("rel", p, 2, 1 if not q else 0, env))
        plan.append(("rel", "E2", 2, 0, env))
    plan += [("rel", "E3", 1 if q else 2, 0, {}), ("rel", "E3", 1 if q else 2, 0, RF), ("dbg", "E1", 1 if q else 2, 0, RF), ("dbg", "E5", 1 if q else 2, 0, RF), ("rel", "AB1", 2, 0, RF),
             ("rel", "E6", 1 if q else 2, 0, envs(NOARENA, RF, NORECL)), ("rel", "E6", 1 if q else 2, 0, envs(RF, NORECL)), ("rel", "E6", 1, 0, envs(NOARENA, NORECL)), ("dbg", "E6", 1, 0, envs(NOARENA, RF, NORECL)),
             ("rel", "E7", 1 if q else 2, 0, {}), ("rel", "E7", 1 if q else 2, 0, NORECL), ("dbg", "E7", 1, 0, {}),
             ("rel", "E8", 2, 0, {"MIMALLOC_ARENA_RESERVE": "32MiB"}), ("dbg", "E8", 1, 0, {"MIMALLOC_ARENA_RESERVE": "32MiB"}),
             ("rel", "E10", 2, 0, {}), ("dbg", "E10", 1, 0, {}), ("rel", "E9", 2, 0, {}), ("rel", "E9", 2, 0, NOARENA), ("rel", "E9", 1 if q else 2, 0, RF), ("dbg", "E9", 1, 0, {})]
    if not q: plan += [("rel", "E1", 3, 1, RF), ("rel", "E5", 3, 1, RF), ("sec", "E1", 2, 1, RF), ("dbg", "E3", 2, 0, NOARENA), ("rel", "E3", 2, 0, ALL)]
    if not q: plan += [("rel", "E9", 3, 1, {}), ("rel", "E9", 3, 0, NOARENA), ("sec", "E9", 2, 0, RF), ("rel", "E8", 3, 0, {"MIMALLOC_ARENA_RESERVE": "32MiB"}), ("rel", "E7", 3, 0, {})]
    race = race_jobs(ctx, [(p, RF) for p in ("E1", "E2", "E3", "E4", "E5", "AB1")] + [("E1", {}), ("E2", NOARENA)])
    return conc_property(ctx, conc_jobs(ctx, plan), extra_jobs=race,
        rule=RACE_NOTE.strip() + " E9: the exiting thread owns two pages of one segment in different size classes; the block of the higher class is freed by another thread around the exit (that page is released during the exit, after the other page was abandoned): the segment must end up abandoned, not orphaned (final leak check). E8 (32 MiB arena reserve): the exiting thread leaves a small block in an arena segment and a 40 MiB block in a segment straight from the OS; a second thread frees the big one, then a forced collect of a third thread -- which walks the arena's abandoned segments first (the small block is still live) and then the list of abandoned OS segments -- must have returned its mapping. E7: two sub-processes (mi_subproc_new / mi_subproc_add_current_thread) with one abandoned arena segment each: a thread of the second one collects (its scan passes over the segment of the main sub-process), the last block of the second sub-process' segment is then freed by a thread of the main one, and a forced collect in the second sub-process has to find and release that segment; nothing may stay mapped. E6: three segments, two of them abandoned; a free adopts the most recently abandoned one, the third thread exits, then the block in the oldest abandoned segment is freed (with segments straight from the OS this exercises unlink-last / append / lookup on the list of abandoned OS segments); nothing may stay mapped. AB1: a forced collect visits (and purges) an abandoned segment while another thread adopts it by freeing one of its blocks and allocates in its pending-purge span; programs E1 (thread exit vs remote free of one of its blocks vs an allocation that may adopt), E2 (two segments left by finished threads; two threads allocate and free into them and may both adopt), E3 (forced abandonment through mi_collect_reduce with two segments vs remote frees into both), E4 (as E1 with the allocating thread in another sub-process), E5 (two remote frees into one abandoned segment, then both freeing threads allocate) x configurations {arena segments, OS segments (arenas disabled), reclaim-on-free on/off, visit_abandoned}. Oracle: blocks of the terminated thread keep their contents and can be freed by others; anything handed out after adoption is disjoint from all live blocks (two adopters would hand out the same memory); at the end, after all blocks are freed, all threads ended and the main thread force-collected, no arena block is in use or marked abandoned, the abandoned count is 0 and no segment-sized OS mapping is left.",
        assumptions=COMMON_ASSUME[:2] + SCHED_ASSUME + ["thread exit is the explicit mi_thread_done() call; the pthread-key destructor later finds the heap already released"])

def run_C10(ctx):
    q = ctx.quick
    pr = [] if q else ["--prune"]
    plan = [
        ("rel", "P4h", "S0", 5 if q else 7, ["--observe", "owner,walk"] + pr, {}), ("rel", "P4h", "S4", 4 if q else 6, ["--observe", "owner,walk"] + pr, {}),
        ("rel", "P4h", "S1", 4 if q else 5, ["--observe", "owner"], {}), ("rel", "P4h", "S3", 4 if q else 5, ["--observe", "owner"], {}),
        ("dbg", "P4h", "S0", 4 if q else 6, ["--observe", "owner,walk"] + pr, {}), ("sec", "P4h", "S0", 4 if q else 6, ["--observe", "owner"] + pr, {}),
        ("rel", "P4o", "S0", 5 if q else 6, ["--observe", "owner,walk"] + pr, {}), ("dbg", "P4o", "S0", 4, ["--observe", "owner"], {}),
    ]
    cplan = [("rel", p, 2, 1, {}) for p in ("D1", "D2", "D3")] + [("dbg", "D1", 1 if q else 2, 0, {}), ("sec", "D3", 1 if q else 2, 0, {})]
    # three threads: delete vs two frees into one full page; a freeing thread may stay descheduled across twelve consecutive pauses of the deleting one
    cplan += [("rel", "D4", 3 if q else 4, 0, {"VF_FREE_SPINS": "12"}), ("rel", "D4", 2, 1, {})] + ([] if q else [("dbg", "D4", 3, 0, {"VF_FREE_SPINS": "12"})])
    if not q: cplan += [("rel", "D1", 3, 1, {}), ("rel", "D3", 3, 1, {}), ("rel", "D2", 3, 1, {})]
    race = race_jobs(ctx, [(p, {}) for p in ("D1", "D2", "D3")])
    res = conc_property(ctx, conc_jobs(ctx, cplan),
        rule=RACE_NOTE.strip() + " D4: mi_heap_delete while two other threads each free a block of the same full page of that heap, bound 3 with the spin window widened to 12 pauses (a thread inside its delayed-freeing window can stay descheduled that long while the deleting thread drains the delayed list). P4o: the heap alphabet with heap_malloc_aligned(h1, 1000, 64 MiB) (a mapping of its own that the kernel places far above the arenas, outside the range of mimalloc's segment map). Sequential part: all sequences over {heap_new (2 slots), heap_malloc(h,8K/48), malloc (default heap), free(i), heap_delete(h), heap_destroy(h), set_default(h), collect(1)} up to depth D from start states S0/S1/S3/S4; model: blocks carry a heap id, delete relabels to the backing heap, destroy removes exactly that heap's blocks, deleting the default heap falls back to the backing heap; node oracle: all live blocks intact, mi_heap_contains_block / mi_heap_check_owned true for exactly the model's heap, heap walks agree with the model. Concurrent part: D1 (mi_heap_delete of a heap with a full page while two other threads free blocks of it), D2 (mi_heap_collect forced / not forced + allocation vs remote frees), D3 (delete of a heap with two full pages vs frees into both): every interleaving up to the preemption bound; oracle: no crash, live blocks intact, and after everything is freed and the owner collected its backing heap holds no page (a free that landed on the deleted heap's list would be lost).",
        assumptions=COMMON_ASSUME + SCHED_ASSUME, extra_jobs=seq_jobs(ctx, plan) + race)
    return res

def run_C14(ctx):
    q = ctx.quick
    P0 = {"MIMALLOC_PURGE_DELAY": "0"}
    plan = [("rel", "A1", 2, 1, {}), ("rel", "A3", 2, 1, {}), ("rel", "A2", 2, 1, {}), ("rel", "A2", 2, 1, P0), ("rel", "A1", 2, 0, P0), ("dbg", "A3", 1 if q else 2, 0, {}), ("dbg", "A2", 1 if q else 2, 0, P0), ("rel", "A4", 2, 0, {}), ("dbg", "A4", 1, 0, {})]
    if not q: plan += [("rel", "A4", 3, 1, {}), ("rel", "A1", 3, 1, {}), ("rel", "A3", 3, 2, {}), ("rel", "A2", 3, 1, P0), ("sec", "A2", 2, 1, P0)]
    bjobs = conc_jobs(ctx, [("rel", "B1", 3 if q else 6, 0, {}), ("rel", "B2", 2 if q else 4, 0, {}), ("rel", "B3", 2 if q else 4, 0, {}), ("rel", "B4", 2 if q else 4, 0, {})], harness="h_bitmap") if os.path.exists(os.path.join(ctx.verif, "harness", "h_bitmap.c")) else []
    race = race_jobs(ctx, [("A1", {}), ("A2", {}), ("A3", {}), ("A2", P0), ("A1", P0)])
    return conc_property(ctx, conc_jobs(ctx, plan) + bjobs, extra_jobs=race,
        rule=RACE_NOTE.strip() + " A4: one- and two-block claims (the path of ordinary segments) in an arena of two bitmap words whose first word is full, then frees in the first word; final oracle of every arena program: after everything was freed the arena can be allocated block by block (from wherever the last claims landed) and then in one piece. B4 (bitmap seam): claims of exactly one whole field (64 bits) in fields whose bit 0 is free, racing each other, a 3-bit claim and a purge-style claim of the field. Arena seam (real _mi_arena_alloc_aligned / _mi_arena_free / _mi_arenas_collect on a private exclusive arena): A1 (70-block arena with 60 blocks taken: three threads claim 5, 4 and 3 blocks so that claims cross the bitmap word boundary and compete, two free again), A3 (a cross-word claim loses its final word to a competing claim and rolls back its initial word while a third thread frees other blocks of that word), A2 (arena free -- which schedules or performs a purge -- racing allocations that may take the same blocks, plus a collector after a clock tick), with purge delay default and 0. Oracle: successful claims are pairwise disjoint and inside the arena; the first and last 64 KiB of every claimed range keep their pattern (a purge racing a claim would zero it); at quiescence the in-use bitmap holds only the left-over bits and the whole arena can be allocated in one piece.",
        assumptions=COMMON_ASSUME[:2] + SCHED_ASSUME)

def run_C16(ctx):
    jobs = []
    for v in ("rel", "dbg", "sec"):
        b = ctx.build("h_arith", v)
        jobs.append(dict(bin=b, args=["--prop", ctx.pid], env={}, tag=f"{v}/arith", timeout=900))
    tot, samples, viol, infra, per_run, dl = agg_runs(ctx, jobs, parallel=3)
    cov = dict(evaluations=tot["nodes"], distinct_nontrivial=tot["nontrivial"],
        rule="(large and huge requests: every multiple of 4 KiB from 128 KiB to 64 MiB with -1/0/+1: the block mi_malloc hands out is at least the request, monotone in it and wastes at most 25%) exhaustive enumeration of the compiled functions (harness includes src/static.c): (1) every size 0..131072 and all class boundaries/powers of two up to PTRDIFF_MAX: block size >= request, monotone, <= 25% waste above 64 B, mi_good_size >= n, idempotent and equal to mi_usable_size(mi_malloc(n)) up to the medium limit (equality and idempotence in the unpadded build only: with padding the usable size is the exact request by design); (2) history independence: all ordered pairs (i,j) of class-edge small sizes, sequence malloc(i); malloc(j); malloc(i) with usable == good_size at each step and every entry of the fast-path table pointing to a page of exactly its class; (3) span bins for all slice counts 0..1024; (4) address recovery on real pages: every bin that requests map to, pages at up to 600 positions across two segments, every block index of every page and interior offsets {0,1,8,bs/2,bs-1}, plus large/huge/over-aligned (up to 128 MiB) blocks with offsets up to the documented interior-pointer limit; (5) mi_fast_divide == '/' for all bin block sizes (+-8) x all multiples in a page and all divisors 1..65536 x quotients 0..64 and the largest 32-bit numerators; (6) align/divide/overflow/bit-scan helpers on a 343-value boundary grid squared against 128-bit reference arithmetic. distinct_nontrivial = inputs above the trivial range counted by the harness (sizes > 64, pairs of different classes, bins spanning more than one segment, all divisors).",
        samples=samples, exhaustive=not dl, oracle_checks=tot["checks"], runs=per_run)
    return dict(coverage=cov, assumptions=COMMON_ASSUME[:2] + ["64-bit Linux; interior pointers are checked up to MI_MAX_SLICE_OFFSET_COUNT slices behind the page start (the documented limit for huge blocks)"], violations=viol, infra=infra)

def run_C20(ctx):
    import subprocess
    jobs = []
    for v in ("rel", "dbg", "sec", "asan"):
        b = ctx.build("h_opt", v)
        jobs.append(dict(bin=b, args=["--prop", ctx.pid], env={"ASAN_OPTIONS": "detect_leaks=0:abort_on_error=1"}, tag=f"{v}/opt", timeout=900))
    tot, samples, viol, infra, per_run, dl = agg_runs(ctx, jobs, parallel=4)
    # exec mode: the real constructor path parses one variable per fresh process
    b = ctx.build("h_opt", "rel")
    def readback(env):
        e = {k: v for k, v in os.environ.items() if not k.upper().startswith("MIMALLOC_")}
        e.update(env)
        r = subprocess.run([b, "--mode", "readback"], env=e, stdout=subprocess.PIPE, stderr=subprocess.DEVNULL, text=True, timeout=60)
        return dict(l.split("=", 1) for l in r.stdout.splitlines() if "=" in l), r.returncode
    base, rc = readback({})
    execs = 0; exec_samples = []
    if rc != 0 or not base:
        infra.append("exec read-back of the option table failed")
    else:
        for name, dflt in base.items():
            for val, want in ((("3MiB", "3072") if name in ("arena_reserve", "reserve_os_memory") else ("7", "7")), ("off", "0"), ("bogus!", dflt)):
                if name.startswith("guarded_") or name == "verbose" or name == "show_stats": continue   # verbose/show_stats change the output itself
                got, rc = readback({"MIMALLOC_" + name.upper(): val}); execs += 1
                if rc != 0:
                    viol.append(dict(key=f"{ctx.pid}:exec-crash:{name}", msg=f"process with MIMALLOC_{name.upper()}={val} exited with {rc}", replay="")); continue
                if got.get(name) != want:
                    viol.append(dict(key=f"{ctx.pid}:exec-option-value:{name}", msg=f"MIMALLOC_{name.upper()}={val}: option reads {got.get(name)}, expected {want}", replay=""))
                others = [k for k in base if k != name and got.get(k) != base[k]]
                if others:
                    viol.append(dict(key=f"{ctx.pid}:exec-other-option:{name}", msg=f"MIMALLOC_{name.upper()}={val} changed other options: {others[:3]}", replay=""))
                if len(exec_samples) < 2: exec_samples.append(f"exec: MIMALLOC_{name.upper()}={val} -> {name}={got.get(name)}")
    cov = dict(evaluations=tot["nodes"] + execs, distinct_nontrivial=tot["nontrivial"],
        rule="(out-of-range option indices -1, last, 1000 through set/enable/set_default: table and the memory directly behind it unchanged, reads give 0) (last case of the JSON section: the heap-allocated form of mi_stats_get_json when its buffer cannot grow -- the OS refuses new mappings, all spans of all segments are filled, only the 2 KiB and 4 KiB classes have one free block each between live neighbours: the text must end, terminated, inside the block it got, neighbours intact) (a) every option index and legacy name x {20 boolean spellings, 18 integer forms incl. LONG_MAX+-1 and 30-digit numbers, 26 malformed strings, and for the two KiB-valued options 23 magnitudes x 9 suffix spellings x 6 unit spellings around every overflow edge of N*2^10/2^20/2^30}: one variable in a private environment, all options re-initialised through the real mi_option_init, ALL options read back and compared with an independent reference parser (exact value, or default for malformed input; strings that are proper substrings of the boolean word lists are outside the claim); API round trips set/get/enable/disable/set_default incl. out-of-range indices; (b) values and look-alike variable names of every length 0..300 and 511..8193, 70000; (c) _mi_snprintf for every destination size 0..80 x {7 flag sets x 7 widths x 6 length modifiers x 9 conversions x boundary arguments} and the multi-conversion formats of the sources, destination ending exactly at a PROT_NONE page with a canary in front: no write outside, terminator at the returned length, output identical to the untruncated one when it fits; _mi_strlcpy/_mi_strlcat for all destination sizes 0..40 x source lengths 0..80; (d) mi_stats_get_json(n, buf) for every n from 0 to length+64 with the same placement, heap-allocated result syntactically valid JSON, mi_stats_print_out / mi_options_print chunks terminated, > 16 KiB through the delayed output buffer; (e) fresh processes with one MIMALLOC_* variable each (constructor path). The asan variant runs all of it under AddressSanitizer. distinct_nontrivial = cases counted by the harness as changing a value / exceeding a buffer.",
        samples=samples + exec_samples, exhaustive=not dl, oracle_checks=tot["checks"], exec_cases=execs, runs=per_run)
    return dict(coverage=cov, assumptions=COMMON_ASSUME[:1] + ["boolean substrings (e.g. 'E' parses as true through strstr) and leading blanks accepted by strtol are outside the claim", "values longer than 64 characters are truncated by the option buffer: only safety is checked for them"], violations=viol, infra=infra)

def run_C17(ctx):
    q = ctx.quick
    pr = [] if q else ["--prune"]
    plan = [("sec", "P9s", "S0", 5 if q else 7, pr, {}), ("dbg", "P9s", "S0", 5 if q else 7, pr, {}), ("sec", "P9s", "S1", 4 if q else 5, pr, {}), ("dbg", "P9s", "S1", 4 if q else 5, pr, {}),
            ("sec", "P9s", "S4", 4 if q else 5, pr, {}), ("sec", "P1", "S0", 4 if q else 6, pr, {}),
            ("sec", "P9g", "S8", 4 if q else 6, pr, {}), ("dbg", "P9g", "S8", 4 if q else 5, pr, {})]
    grid = [("sec", "hardened", not q, {}), ("dbg", "hardened", not q, {})]
    return mixed_property(ctx, plan, grid,
        rule="hardened grid kind 4: a released block's link is overwritten and an older released block of the same page is freed again, so that the scan for the double free reaches the forged link: reported, not followed (the case ends at the report: two program faults at once are outside the consistency claim). hardened grid kind 3 (control): an intact block of a page in the full queue, freed by another thread (the free goes through the owner's delayed list and a hardened build stores its link inside the block, shrinking the padding of requests below 8 bytes), owner collects: no report at all, block re-usable, neighbours intact. " + "size grid (mode hardened, every case in its own process): every requested size 1..130 and the boundary size grid up to 2 MiB x {foreign byte at offset = requested size, block freed by its own thread -> EFAULT; the same freed by another thread -> EFAULT; second free while a neighbour in the same page is live -> exactly one EAGAIN, afterwards two allocations return distinct non-overlapping blocks (secure build)}. Histories (forged link targets: another segment-sized region, a live block of another page, the gap between the start of the page's slice and its block area, an address 128 KiB further in the same segment; whenever a block whose link was forged is handed out again the number of such blocks must not exceed the number of EFAULT reports; profile P9g from start state S8 = 40-byte blocks, free list of the page empty): hardened builds (MI_SECURE=4 decides 'stays usable'; MI_DEBUG=3 the reports only), error callback registered: all sequences over {malloc(8000), malloc(100), fill(8 x 8000 = one page), free(i)} plus the three faults at every position the history allows: double_free(j) = second free of any of the six most recently released blocks that is still free while its page holds another live block (expected: exactly one EAGAIN and an unchanged allocator fingerprint); overflow_then_free(i) = one foreign byte at p[requested] of a block with slack, then free (expected: EFAULT); forge_link(j, target) = the free-list link of a released block overwritten with the encoding of an address outside its page (another segment, or a live block of another page) (expected: EFAULT when the allocator reaches it instead of following it). In the secure build exploration continues afterwards under the C01 oracle (no overlap, contents, accessibility) and every live block must lie in a heap region; in the debug build the branch ends after the first report.",
        assumptions=COMMON_ASSUME + ["forged values that decode into the same page, and a second free after the whole page was released, are outside the claim and not generated"])

def run_C15(ctx):
    q = ctx.quick
    pr = [] if q else ["--prune"]
    # shape = delta index (0, 4 KiB, 1 MiB, 32 MiB - 4 KiB) * 16 + size index (64, 95, 96, 100 MiB) * 4 + exclusive * 2 + committed
    shapes_q = [2, 3, 0, 22, 59, 14, 47, 41]
    shapes = shapes_q if q else list(range(64))
    plan = [("rel", "P6a", f"Sa{k}", 5 if (q and k in (2, 3)) else (4 if q else 5), pr, {}) for k in shapes]
    plan += [("dbg", "P6a", "Sa2", 4 if q else 5, pr, {}), ("sec", "P6a", "Sa23", 4 if q else 5, pr, {}), ("rel", "P6a", "Sa3", 4, [], {"MIMALLOC_ABANDONED_RECLAIM_ON_FREE": "1"}),
             ("rel", "P6a", "Sa18", 4, [], {"MIMALLOC_PURGE_DELAY": "0"}),
             # the six-argument registration form (its flags reach the arena in the right roles: an uncommitted range is committed before use, a committed one is purged)
             ("rel", "P6a", "Sm0", 4, pr, {}), ("rel", "P6a", "Sm1", 4, pr, {}), ("dbg", "P6a", "Sm0", 3, [], {})]
    # the same shapes registered for NUMA node 1 (the process runs on node 0: the arena is only reachable through the second, foreign-node arm of the arena search)
    plan += [("rel", "P6a", f"Sn{k}", 4 if q else 5, pr, {}) for k in ((2, 3) if q else (0, 1, 2, 3, 22, 23, 59, 41))]
    # the arena-bound heap as the thread's default heap while frees adopt abandoned segments (reclaim-on-free); no arena reservation, so that default-heap memory comes straight from the OS
    RF0 = {"MIMALLOC_ABANDONED_RECLAIM_ON_FREE": "1", "MIMALLOC_ARENA_RESERVE": "0"}
    plan += [("rel", "P6d", "Sa3", 5 if q else 6, pr, RF0), ("rel", "P6d", "Sa2", 5 if q else 6, pr, RF0), ("rel", "P6d", "Sa1", 4 if q else 5, pr, RF0), ("dbg", "P6d", "Sa3", 4, [], RF0)]
    return seq_property(ctx, plan,
        rule="P6d: one size, and mi_heap_set_default(arena heap) / back: with reclaim-on-free and no arena reservation a free adopts an abandoned OS segment into whatever heap is the default -- it must never become memory of the arena-bound heap. Sn<shape>: the region is registered for NUMA node 1 while the process runs on node 0 (exclusive and shared), so every allocation reaches it through the foreign-node arm of the arena search. The harness maps guard | canary | region | canary | guard, hands [start+delta, +size) to mi_manage_os_memory_ex for delta in {0, 4 KiB, 1 MiB, 32 MiB - 4 KiB} x size in {64, 95, 96, 100 MiB} x exclusive {0,1} x committed {0,1} (quick: 8 shapes; thorough: all 64) and explores all sequences over {heap_new_in_arena, heap_malloc(arena heap, 8K/1M/17M), malloc (default heap, same sizes), free(i), collect(1), thread_arena_alloc (a helper thread creates an arena-bound heap, allocates two blocks and exits with them live), thread_alloc (a helper thread allocates 12 blocks from its default heap, keeps the first and last, exits)} up to depth D. Node oracle: blocks of arena-bound heaps lie inside the arena; for an exclusive arena no block of any other heap intersects it (also after the same thread freed an arena page, and after adoption of abandoned segments through allocation or forced collect); an arena-bound heap returns NULL only when the arena cannot serve the request; canary pages around the given range intact and no OS call (mprotect/madvise/munmap) on memory outside the given range.",
        assumptions=COMMON_ASSUME + ["helper threads run to completion inside one operation (sequential thread exit / adoption)"])

# ------------------------------------------------------------------------------------------------
# C19: drop-in override (real library builds, no instrumentation header)
# ------------------------------------------------------------------------------------------------
def ov_build(ctx):
    import subprocess, hashlib
    bdir = os.path.dirname(ctx.build("h_arith", "rel"))     # the content-hashed build directory of this tree
    d = os.path.join(bdir, "ov"); os.makedirs(d, exist_ok=True)
    so, obj, dyn, sta = (os.path.join(d, n) for n in ("libmimalloc.so", "mimalloc.o", "ov_dyn", "ov_static"))
    so_sec = os.path.join(d, "libmimalloc-secure.so")
    src = os.path.join(ctx.verif, "harness", "ov_test.cpp")
    stamp = os.path.join(d, "stamp." + hashlib.sha1(open(src, "rb").read()).hexdigest()[:10])
    if not (os.path.exists(stamp) and all(os.path.exists(x) for x in (so, obj, dyn, sta, so_sec))):
        F = ["-O2", "-g", "-DNDEBUG", "-std=gnu11", "-Wno-unknown-pragmas", "-fvisibility=hidden", "-ftls-model=initial-exec", "-fno-builtin-malloc", "-DMI_BUILD_RELEASE", "-DMI_MALLOC_OVERRIDE", "-I" + os.path.join(ctx.repo, "include")]
        st = os.path.join(ctx.repo, "src", "static.c")
        cmds = [["gcc"] + F + ["-fPIC", "-shared", "-DMI_SHARED_LIB", "-DMI_SHARED_LIB_EXPORT", st, "-o", so, "-lpthread"],
                ["gcc"] + F + ["-DMI_SECURE=4", "-fPIC", "-shared", "-DMI_SHARED_LIB", "-DMI_SHARED_LIB_EXPORT", st, "-o", so_sec, "-lpthread"],   # hardened build of the override library
                ["gcc"] + F + ["-c", st, "-o", obj],
                ["g++", "-std=c++17", "-O1", "-g", src, "-o", dyn, "-ldl", "-lpthread", "-rdynamic", "-Wl,--unresolved-symbols=ignore-all"],
                ["g++", "-std=c++17", "-O1", "-g", "-DOV_STATIC", obj, src, "-o", sta, "-ldl", "-lpthread"]]
        for c in cmds:
            r = subprocess.run(c, stdout=subprocess.PIPE, stderr=subprocess.STDOUT, text=True)
            if r.returncode != 0:
                raise RuntimeError("override build failed: " + " ".join(c) + "\n" + r.stdout[-2000:])
        open(stamp, "w").write("ok")
    return so, dyn, sta

def ov_run(so, dyn, sta, mode, extra=()):
    import subprocess
    env = {k: v for k, v in os.environ.items() if not k.upper().startswith("MIMALLOC_")}
    if mode == "preload": env["LD_PRELOAD"] = so; cmd = [dyn, "preload"]
    elif mode == "preload-secure": env["LD_PRELOAD"] = so.replace("libmimalloc.so", "libmimalloc-secure.so"); cmd = [dyn, "preload-secure"]
    else: cmd = [sta, "static"]
    r = subprocess.run(cmd + [str(x) for x in extra], env=env, stdout=subprocess.PIPE, stderr=subprocess.PIPE, text=True, timeout=900)
    line = [l for l in r.stdout.splitlines() if l.startswith("{")]
    return (json.loads(line[-1]) if line else None), r.returncode, r.stderr[-500:]

def run_C19(ctx):
    viol, infra, samples = [], [], []
    try: so, dyn, sta = ov_build(ctx)
    except RuntimeError as ex: return dict(coverage=dict(evaluations=1, distinct_nontrivial=2, rule="build failed", samples=["-"]), violations=[], infra=[str(ex)])
    pairs = ok = nontriv = 0
    os.makedirs(os.path.join(ctx.out, "replays"), exist_ok=True)
    for mode in ("preload", "static", "preload-secure"):
        res, rc, err = ov_run(so, dyn, sta, mode)
        if res is None or "infra" in (res or {}):
            infra.append(f"override test did not run in mode {mode}: rc={rc} {res} {err}"); continue
        pairs += res["pairs"]; ok += res["ok"]; nontriv += res["nontrivial"]
        samples.append(f"{mode}: {res['pairs']} (allocating entry, size, releasing entry) triples, {res['ok']} passed")
        for k, v in enumerate(res["violations"]):
            import hashlib
            rp = os.path.join(ctx.out, "replays", f"C19-{hashlib.sha1((mode + v).encode()).hexdigest()[:8]}.txt")
            open(rp, "w").write(f"# replay file for property C19\nharness ov_test\nmode {mode}\nmsg {v}\n")
            key = v.split(":")[0]
            viol.append(dict(key=f"C19:{mode}:{key}", msg=v, replay=rp))
    samples += ["malloc(100000) -> delete[](sized)", "new[](align)(24) -> realloc(p,2n+1)", "posix_memalign(&p, 0, 64) == EINVAL with p untouched"]
    cov = dict(evaluations=pairs + 2 * 14, distinct_nontrivial=nontriv,
        rule="(cross-thread case in every run: 30000 blocks of 1..7 bytes from malloc/calloc/strdup/strndup/operator new/realloc(NULL) fill whole pages, are verified and released by another thread with free / operator delete, then the owner allocates twice as many again) (third run: the same matrix against a hardened MI_SECURE=4 build of the preloaded library; whatever malloc_usable_size reports is written in full before the block is released) the shared library (LD_PRELOAD) and the static override object are built from the working tree with the suite's flags; for both, every triple (allocating entry point in {malloc, calloc, realloc(NULL), posix_memalign, aligned_alloc, memalign, valloc, pvalloc, reallocarray(NULL), strdup, strndup, realpath, new, new[], nothrow and aligned forms, __libc_malloc/calloc/realloc/memalign/valloc/pvalloc} x size in {0, 1, 24, 4096, 100000, 20 MiB} x releasing/resizing/querying entry point in {free, cfree, realloc up/down/0, reallocarray, malloc_usable_size, delete, delete[], sized, aligned, sized-aligned, nothrow forms, __libc_free, __libc_realloc}) runs in its own process: the pointer must be a mimalloc heap block with usable size >= n (and aligned), the heap walk must report it once, the release must leave the heap's block count where it was before the allocation, resizes keep contents; plus standard return codes (posix_memalign EINVAL/ENOMEM with untouched out-parameter for alignment 0/3/24/4, reallocarray and calloc overflow, malloc(0), nothrow new), a C++ containers/streams/threads program, and mallinfo2() showing that glibc's allocator was never used. distinct_nontrivial = triples with size >= 4096.",
        samples=samples, exhaustive=True, passed=ok)
    return dict(coverage=cov, assumptions=["Linux/glibc, gcc/g++; the C build of mimalloc (operator new cannot throw: the throwing forms are only used with sizes that succeed)", "LD_PRELOAD with an uninstrumented release build of the library"], violations=viol, infra=infra)

def replay_C19(ctx, path):
    lines = open(path).read().splitlines()
    mode = next((l.split()[1] for l in lines if l.startswith("mode ")), "preload")
    msg = next((l[4:] for l in lines if l.startswith("msg ")), "")
    so, dyn, sta = ov_build(ctx)
    res, rc, err = ov_run(so, dyn, sta, mode)
    hit = [v for v in (res or {}).get("violations", []) if v.split(":")[0] == msg.split(":")[0]]
    print("REPLAY violation " + hit[0] if hit else "REPLAY no violation")
    return 1 if hit else 0

PROPS = {
    "C19": dict(level="exploration", run=run_C19, replay=replay_C19, engine="seq-explorer",
        technique="exhaustive enumeration of (allocating entry point, size, releasing entry point) triples against the real preloaded shared library and the static override object, each triple in its own process",
        text="All pairs of the platform's C and C++ allocation entry points are crossed in both override modes; every pointer is checked to be a mimalloc block and every release to remove exactly that block; exhaustive over the stated finite matrix.",
        note="trusted: the test program's use of mi_is_in_heap_region / mi_heap_visit_blocks as observers (decided separately by C12)"),
    "C15": dict(level="model_checking", run=run_C15, replay=replay_file, engine="seq-explorer",
        technique="bounded exhaustive exploration of operation sequences over a managed (exclusive or shared) arena with arena-bound and default heaps, including thread exit and adoption, on the real allocator with address-range oracles",
        text="For each region shape every sequence of the alphabet up to depth D is executed; every live block's address is compared against the arena range according to the heap it came from, and the surroundings of the managed region are monitored.",
        note="trusted: harness model; region shapes are a finite set"),
    "C17": dict(level="model_checking", run=run_C17, replay=replay_file, engine="seq-explorer",
        technique="bounded exhaustive exploration of operation sequences with injected program faults (double free, one-byte overflow, forged free-list link) at every position, on the hardened builds of the real allocator",
        text="Every sequence of the alphabet including the fault operations up to depth D runs on the MI_SECURE=4 and MI_DEBUG=3 builds; the expected error code must be reported at the expected call and the secure build must remain consistent afterwards.",
        note="trusted: harness model; the harness reads the page keys to forge an out-of-page link"),
    "C20": dict(level="exploration", run=run_C20, replay=replay_file, engine="seq-explorer",
        technique="exhaustive enumeration of option indices x value forms, buffer sizes x format grammar, and JSON buffer sizes on the compiled code (also under AddressSanitizer) against a reference parser and guard-page placed buffers",
        text="All option/value forms of the grammar, all destination sizes 0..80 for every generated format and all JSON buffer sizes are enumerated; exhaustive over the stated finite domains.",
        note="trusted: reference option parser in the harness, guard-page/ASan instrumentation"),
    "C16": dict(level="exploration", run=run_C16, replay=replay_file, engine="seq-explorer",
        technique="exhaustive enumeration of finite input domains of the compiled arithmetic (all sizes up to twice the medium limit, all slice counts, all block indices of real pages, all 16-bit divisors) with executable oracles",
        text="The whole relevant domain of each function is enumerated on the compiled code in release, debug and secure builds; exhaustive: true.",
        note="trusted: reference arithmetic in the harness (128-bit), harness geometry assumptions stated in the rule"),
    "C02": dict(level="model_checking", run=run_C02, replay=replay_file, engine="schedule-explorer",
        technique="stateless model checking of the implementation: preemption-bounded exhaustive enumeration of thread interleavings (with bounded spurious weak-CAS failures) under a deterministic token scheduler over every atomic operation",
        text="Every schedule of each small program up to the completed preemption bound runs on the real allocator; ownership (overlap), contents of live blocks and crash-freedom are checked after every operation of every thread.",
        note="trusted: scheduler (engine/vf_sched.c), private-address fusion argument (re-validated every pass), harness model; sequential consistency"),
    "C08": dict(level="model_checking", run=run_C08, replay=replay_file, engine="schedule-explorer",
        technique="stateless model checking of the implementation: preemption-bounded exhaustive enumeration of interleavings of remote frees with the owner's malloc/free/collect, with a quiescence oracle (heap empty) and a page-count oracle (producer/consumer)",
        text="Every schedule up to the bound is executed; afterwards all blocks are freed, the owner force-collects and its heap must be empty; the producer/consumer program bounds the owner's page count in every interleaving.",
        note="trusted: scheduler, harness; 'however long it runs' is covered for six rounds with time compression of the 100-allocation administrative cycle"),
    "C09": dict(level="model_checking", run=run_C09, replay=replay_file, engine="schedule-explorer",
        technique="stateless model checking of the implementation: preemption-bounded exhaustive enumeration of interleavings of thread exit, remote frees, adopting allocations, forced abandonment and collects, under arena/OS-segment and reclaim-on-free configurations",
        text="Every schedule up to the bound runs on the real allocator; survival of the terminated thread's blocks, single adoption (no double hand-out) and release of the memory at the end are checked.",
        note="trusted: scheduler, harness, OS shim for the final leak check"),
    "C07": dict(level="fault_enumeration", run=run_C07, replay=replay_file, engine="os-shim",
        technique="exhaustive fault enumeration: every position of the OS-call sequence of each workload fails once / persistently (thorough: all pairs) on the real allocator, with the reference-model oracle running throughout",
        text="Every single-fault and persistent-fault plan over the whole OS call sequence of 8 workloads and several option settings is executed on the implementation in release, secure and debug builds; crash-freedom, NULL-or-valid results, intact live blocks and full recovery/quiescence are checked on each.",
        note="trusted: OS shim fault model (refusals only, no partial success), harness oracle; workloads are fixed scripts"),
    "C11": dict(level="model_checking", run=run_C11, replay=replay_file, engine="os-shim",
        technique="exhaustive enumeration of workload x option-configuration x repetition scenarios on the real allocator with the OS mapping shadow (and mincore residency) as oracle",
        text="All workload/configuration pairs are run for 4 repetitions; after each the complete set of mappings and resident pages is compared against the allowed set and against the previous repetition.",
        note="trusted: OS shim mapping shadow; 'any number of repetitions' is covered up to 4 with a constant mapped-byte sequence"),
    "C18": dict(level="model_checking", run=run_C18, replay=replay_file, engine="os-shim",
        technique="exhaustive enumeration of purge scenarios (what becomes unused x later activity x option configuration) on the real allocator under a virtual clock, judged from the OS call log",
        text="Every scenario of the product is executed; the call log decides whether the unused range was returned too early, in time by ordinary activity, or never.",
        note="trusted: OS shim (virtual clock, call log); scenarios are a finite product, not all histories"),
    "C14": dict(level="model_checking", run=run_C14, replay=replay_file, engine="schedule-explorer",
        technique="stateless model checking of the implementation: preemption-bounded exhaustive enumeration of interleavings of concurrent arena claims, frees and purges (real arena code on a private arena; bitmap functions directly on small bitmaps)",
        text="Every schedule up to the bound is executed on the real arena/bitmap code; disjointness, containment, data integrity under concurrent purge and complete re-allocatability are checked.",
        note="trusted: scheduler, harness"),
    "C10": dict(level="model_checking", run=run_C10, replay=replay_file, engine="seq-explorer",
        technique="bounded exhaustive exploration of heap create/allocate/delete/destroy/set_default sequences against a heap-labelled reference model, plus preemption-bounded exhaustive schedule exploration of heap delete/collect racing remote frees, both on the real allocator",
        text="Every sequence of the heap alphabet up to depth D from four start states, in release/debug/secure builds; at every node block ownership queries and heap walks must agree with the model and all live blocks must be intact.",
        note="trusted: harness model; the concurrent clause (delete/collect racing remote frees) is decided by the schedule explorer harness when present"),
    "C12": dict(level="model_checking", run=run_C12, replay=replay_file, engine="seq-explorer",
        technique="bounded exhaustive exploration of allocation/free histories on the real allocator with the heap walk compared against a reference model at every node",
        text="At every node of every explored history the complete output of mi_heap_visit_blocks (and mi_abandoned_visit_blocks) is compared with the model's live set, including used counts and early termination.",
        note="trusted: harness model; bounded depth; page geometries 8, 64 and 127 blocks per page"),
    "C13": dict(level="model_checking", run=run_C13, replay=replay_file, engine="seq-explorer",
        technique="bounded exhaustive exploration of operation sequences repeated under a pairwise-covering (thorough: full-product) set of run-time option configurations, with an OS-level monitor for purges touching live blocks",
        text="For each configuration every sequence of the merged profile up to depth D is executed with all block/zero/realloc/walk oracles plus the purge monitor.",
        note="trusted: harness model, OS shim; pairwise (not full) coverage of option combinations in the quick tier"),
    "C03": dict(level="model_checking", run=run_C03, replay=grid_replay, engine="seq-explorer",
        technique="exhaustive enumeration of a finite (size, alignment, offset, entry point) grid plus bounded exhaustive operation sequences, all executed on the real allocator against a reference model",
        text="Every triple of the grid and every P5 sequence up to the bound runs on the implementation in release, secure and debug builds; each returned pointer is checked for the alignment/size contract and then used through free/usable_size/expand/realloc.",
        note="trusted: harness oracle; grid is a boundary grid, not all 2^64 sizes"),
    "C04": dict(level="model_checking", run=run_C04, replay=grid_replay, engine="seq-explorer",
        technique="exhaustive enumeration of monotone growth chains and zero-initialising entry points on dirtied memory, plus bounded exhaustive operation sequences, on the real allocator",
        text="All growth chains over the ladder up to the length bound, all zero entry points over the size grid and all P4z sequences up to depth D are executed; every requested byte (and every grown byte) is compared with zero.",
        note="trusted: harness oracle and dirtying discipline; chains bounded in length, ladder finite"),
    "C05": dict(level="model_checking", run=run_C05, replay=grid_replay, engine="seq-explorer",
        technique="exhaustive enumeration of (old size, new size, variant) triples plus bounded exhaustive operation sequences on the real allocator, with the heap walk as release oracle",
        text="All size pairs of the grid are re-allocated through the realloc family; contents, release-exactly-once (observed through mi_heap_visit_blocks), failure behaviour and mi_expand are checked on every case.",
        note="trusted: harness oracle; mi_heap_visit_blocks itself (decided separately by C12)"),
    "C06": dict(level="model_checking", run=run_C06, replay=replay_C06, engine="seq-explorer",
        technique="exhaustive enumeration of malformed/oversized argument tuples over boundary sets for every count*size, size and alignment entry point on the real allocator",
        text="Every tuple of the boundary product that is malformed must return NULL/EINVAL/ENOMEM and leave the observable heap (heap-walk block set, contents of live blocks, the block being re-allocated) unchanged; the converse grid shows well-formed requests succeed.",
        note="trusted: harness oracle; boundary sets are finite samples of the argument space chosen around every overflow edge"),
    "C01": dict(level="model_checking", run=run_C01, replay=seq_replay, engine="seq-explorer",
        technique="bounded exhaustive exploration of API operation sequences on the real allocator (fork-per-node DFS) against a reference model",
        text="Every sequence of the profile alphabets up to the stated depth, from five start states and in release/debug/secure builds, is executed on the real allocator; at every node all live blocks are checked for overlap, accessibility and contents. Bounded exhaustive, not a proof beyond the bound.",
        note="trusted: harness model (engine/vf_harness.h), OS shim; bounded depth/alphabet; single-threaded histories (helper threads run to completion inside one operation)"),
}
