"""props.py -- per-property plans for ./check.  Every plan enumerates a bounded space exhaustively on the
real implementation (harness binaries built from $VERIF_REPO) and aggregates the measured counts."""
import os, json, time, concurrent.futures as cf

class Ctx:
    def __init__(self, **kw): self.__dict__.update(kw)
    @property
    def quick(self): return self.tier != "thorough"

# ------------------------------------------------------------------------------------------------
# generic aggregation for harness runs
# ------------------------------------------------------------------------------------------------
def agg_runs(ctx, jobs, parallel=2, sample_limit=6):
    """jobs: list of dict(bin=..., args=[...], env={...}, tag=str, timeout=s). Runs them (a few in parallel; each
    harness already uses up to 16 processes) and merges the result JSONs."""
    tot = dict(nodes=0, transitions=0, states=0, pruned=0, nontrivial=0, checks=0, maxdepth=0)
    samples, viol, infra, per_run = [], [], [], []
    deadline_hit = False
    def one(j):
        t0 = time.time()
        code, data, out = ctx.run_harness(j["bin"], j["args"], env=j.get("env"), timeout=j.get("timeout", 3600), verbose=ctx.verbose)
        return j, code, data, out, time.time() - t0
    with cf.ThreadPoolExecutor(max_workers=parallel) as ex:
        results = list(ex.map(one, jobs))
    for j, code, data, out, dt in results:
        tag = j.get("tag", "")
        if data is None:
            infra.append(f"run [{tag}] produced no result (exit {code}): {out[-600:]}")
            continue
        for k in ("nodes", "transitions", "states", "pruned", "nontrivial", "checks"): tot[k] += data.get(k, 0)
        tot["maxdepth"] = max(tot["maxdepth"], data.get("maxdepth_seen", 0))
        if data.get("deadline_hit"): deadline_hit = True
        if data.get("infra_error"): infra.append(f"run [{tag}] reported an infrastructure error: {out[-400:]}")
        for s in data.get("samples", [])[:2]:
            if len(samples) < sample_limit: samples.append(f"{tag}: {s}")
        for v in data.get("violations", []):
            v = dict(v); v["key"] = f"{ctx.pid}:{v['key']}:{tag}"; viol.append(v)
        if code not in (0, 1) and not data.get("violations"):
            infra.append(f"run [{tag}] exited with {code}: {out[-600:]}")
        per_run.append(dict(tag=tag, nodes=data.get("nodes"), states=data.get("states"), wall_s=round(dt, 2), extra={k: data[k] for k in data if k not in ("samples", "violations", "counters", "property")}))
    return tot, samples, viol, infra, per_run, deadline_hit

def seq_jobs(ctx, plan):
    """plan: list of (variant, profile, start, depth, flags(list), env(dict))"""
    jobs = []
    for (variant, profile, start, depth, flags, env) in plan:
        b = ctx.build("h_seq", variant)
        args = ["--prop", ctx.pid, "--profile", profile, "--start", start, "--depth", depth, "--deadline", ctx.deadline or (120 if ctx.quick else 1500)] + list(flags)
        tag = f"{variant}/{profile}/{start}/D{depth}" + ("/" + ",".join(f.lstrip('-') for f in flags if f.startswith('--')) if flags else "") + ("/" + ",".join(f"{k}={v}" for k, v in env.items()) if env else "")
        jobs.append(dict(bin=b, args=args, env=env, tag=tag, timeout=(300 if ctx.quick else 3000)))
    return jobs

def seq_property(ctx, plan, rule, assumptions, nontrivial_note=""):
    tot, samples, viol, infra, per_run, dl = agg_runs(ctx, seq_jobs(ctx, plan))
    cov = dict(
        evaluations=tot["nodes"], distinct_nontrivial=tot["states"],
        states=max(tot["states"], 1) if tot["nodes"] else 0, transitions=tot["transitions"],
        traces_validated_against_impl=tot["nodes"],
        rule=rule + " distinct_nontrivial = number of distinct allocator-state fingerprints (raw metadata of heaps, segments, free lists in order, arenas, OS mapping table, model) reached, summed over runs.",
        samples=samples, exhaustive=not dl, oracle_checks=tot["checks"], max_depth=tot["maxdepth"], pruned_nodes=tot["pruned"],
        runs=per_run, explanation="every node is a forked process of the real allocator; every explored sequence therefore ran on the implementation" + (" " + nontrivial_note if nontrivial_note else ""),
    )
    if dl: cov["deadline_hit"] = True
    return dict(coverage=cov, assumptions=assumptions, violations=viol, infra=infra)

def seq_replay(ctx, path):
    """re-run a replay file twice in fresh processes without the explorer"""
    variant = "rel"
    for line in open(path):
        if line.startswith("variant "): variant = line.split()[1]
    b = ctx.build("h_seq", variant)
    outs = []
    for _ in range(2):
        code, data, out = ctx.run_harness(b, ["--prop", ctx.pid, "--replay", path])
        outs.append((code, [l for l in out.splitlines() if l.startswith("REPLAY")]))
    print(outs[0][1][0] if outs[0][1] else f"replay exited {outs[0][0]}")
    if outs[0] != outs[1]:
        print("INFRA-ERROR: replay is not deterministic:", outs); return 2
    return 1 if outs[0][0] != 0 else 0

COMMON_ASSUME = [
    "Linux x86-64, gcc, C build of src/static.c with the suite's release flags (-O2 -DNDEBUG -DMI_BUILD_RELEASE) unless a variant says otherwise",
    "the OS is modelled by engine/vf_os.c (real mmap/mprotect/madvise underneath, virtual clock, deterministic getrandom, no huge-TLB pages)",
    "bounded: only the stated alphabets, depths and start states are covered",
]

# ------------------------------------------------------------------------------------------------
# C01
# ------------------------------------------------------------------------------------------------
def run_C01(ctx):
    q = ctx.quick
    D = 5 if q else 7
    pr = [] if q else ["--prune"]
    plan = [
        ("rel", "P1", "S0", D, pr, {}), ("rel", "P3", "S0", D, pr, {}), ("rel", "P2", "S0", 4 if q else 5, pr, {}),
        ("rel", "P3r", "S0", 4 if q else 5, pr, {}),
        ("rel", "P1", "S1", 4 if q else 6, pr, {}), ("rel", "P1", "S2", 4 if q else 6, pr, {}), ("rel", "P1", "S3", 4 if q else 6, pr, {}), ("rel", "P1", "S4", 4 if q else 6, pr, {}),
        ("rel", "P7t", "S0", 4 if q else 6, pr, {}), ("rel", "P4h", "S0", 4 if q else 6, pr, {}),
        ("dbg", "P1", "S0", 4 if q else 6, pr, {}), ("sec", "P1", "S0", 4 if q else 6, pr, {}),
        ("dbg", "P2", "S0", 3 if q else 4, pr, {}), ("sec", "P3r", "S0", 3 if q else 4, pr, {}),
    ]
    return seq_property(ctx, plan,
        rule="all sequences of operations of each profile alphabet (P1 page life-cycle {malloc 8K/48, fill, free(i), collect}, P2 spans {64K,100K,1M,17M,40M}, P3 small, P3r realloc, P7t threads, P4h heaps) up to depth D from start states S0..S4; node oracle: every live block's whole usable range holds its pattern, new blocks are disjoint from live ones, aligned, inside accessible memory.",
        assumptions=COMMON_ASSUME + ["free(i) is enumerated for all i while at most `free_window` blocks are live, else for the first and last window/2"])

PROPS = {
    "C01": dict(level="model_checking", run=run_C01, replay=seq_replay, engine="seq-explorer",
        technique="bounded exhaustive exploration of API operation sequences on the real allocator (fork-per-node DFS) against a reference model",
        text="Every sequence of the profile alphabets up to the stated depth, from five start states and in release/debug/secure builds, is executed on the real allocator; at every node all live blocks are checked for overlap, accessibility and contents. Bounded exhaustive, not a proof beyond the bound.",
        note="trusted: harness model (engine/vf_harness.h), OS shim; bounded depth/alphabet; single-threaded histories (helper threads run to completion inside one operation)"),
}
