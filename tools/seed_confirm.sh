#!/bin/bash
# usage: seed_confirm.sh <Cxx> <name> [demo cflags]
# Confirms a seeded change in a scratch worktree of /repo HEAD: (1) applies, (2) the repository's own suite passes,
# (3) the demonstration fails with the change and passes without it. On success stores it under /verif/seeded/<name>/.
C=$1; NAME=$2; CFL=${3:--O1 -g -DNDEBUG}
SRC=${SRCBASE:-/tmp/mut_out}/$C; MUTWT=${MUTBASE:-/tmp/mut}/$C; WT=/tmp/confirm_$C
git -C /repo worktree remove --force $WT >/dev/null 2>&1
git -C /repo worktree add --detach $WT HEAD >/dev/null 2>&1 || exit 2
trap "git -C /repo worktree remove --force $WT >/dev/null 2>&1" EXIT
cd $WT
D=$(mktemp -d /tmp/confirm_demo.XXXX)
sed "s#$MUTWT#$WT#g" $SRC/demo.c > $D/demo.c
# NOSTATIC=1: the demo includes src/static.c itself (it redefines an internal macro first)
build() { if [ -n "$NOSTATIC" ]; then gcc $CFL -I$WT/include -I$WT/src -I$WT $D/demo.c -lpthread -o $D/$1 2>$D/$1.build.log; else gcc $CFL -I$WT/include $D/demo.c $WT/src/static.c -lpthread -o $D/$1 2>$D/$1.build.log; fi; }
build demo_orig || { echo "demo does not build on clean tree"; tail -5 $D/demo_orig.build.log; exit 2; }
( cd $D && timeout 300 ./demo_orig >$D/orig.out 2>&1 ); RO=$?
git apply $SRC/patch.diff || { echo "patch does not apply to HEAD"; exit 2; }
build demo_mut || { echo "demo does not build on mutated tree"; exit 2; }
( cd $D && timeout 300 ./demo_mut >$D/mut.out 2>&1 ); RM=$?
SUITE=$(/tmp/mutkit/run_suite.sh $WT 2>&1 | grep -E "tests passed|tests failed|^failed" | tr '\n' ' ')
echo "$C/$NAME: demo clean exit=$RO, demo mutated exit=$RM, suite: $SUITE"
if [ $RO -eq 0 ] && [ $RM -ne 0 ] && echo "$SUITE" | grep -q "100% tests passed" && ! echo "$SUITE" | grep -q "failed   : [1-9]"; then
  mkdir -p /verif/seeded/$NAME
  cp $SRC/patch.diff $SRC/demo.c $SRC/notes.md /verif/seeded/$NAME/ 2>/dev/null
  [ -f $SRC/run_demo.sh ] && cp $SRC/run_demo.sh /verif/seeded/$NAME/
  tail -3 $D/orig.out > /verif/seeded/$NAME/demo_clean.txt; tail -5 $D/mut.out > /verif/seeded/$NAME/demo_mutated.txt
  echo "CONFIRMED -> /verif/seeded/$NAME"
else
  echo "NOT CONFIRMED"; tail -3 $D/orig.out; tail -3 $D/mut.out
fi
rm -rf $D
