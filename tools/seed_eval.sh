#!/bin/bash
# usage: seed_eval.sh <patch.diff> <check id>...   -- apply a seeded change to /repo, run the quick checks, undo it
P=$1; shift
cd /repo || exit 2
git diff --quiet || { echo "/repo has uncommitted changes"; exit 2; }
git apply "$P" || { echo "patch does not apply"; exit 2; }
trap 'git -C /repo checkout -- . ' EXIT
for c in "$@"; do
  echo "--- $c on $(basename $(dirname $P))"
  ( cd /verif && timeout 1200 ./check $c --tier ${TIER:-quick} 2>&1 | grep -E "^OK|^VIOLATION|^INFRA|^KNOWN|^  C" | head -${LINES_MAX:-6}; echo "exit=${PIPESTATUS[0]}" )
done
