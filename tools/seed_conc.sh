#!/bin/bash
# usage: seed_conc.sh <patch> <prog> [env...]  -- quick manual probe of a seeded change with h_conc
P=$1; PROG=$2; shift 2
cd /repo && git apply $P || exit 2
cd /verif && ./build.sh rel harness/h_conc.c build/t/h_conc_m -DVF_SCHED=1 2>&1 | grep -E " error" ; git -C /repo checkout -- .
( time env "$@" timeout 900 build/t/h_conc_m --prop CXX --prog $PROG --bound ${BOUND:-2} --out build/t/cm.json ) 2>&1 | grep real | tr '\n' ' '
python3 -c "
import json; d=json.load(open('/verif/build/t/cm.json')); print('$PROG', 'execs',d['executions'],'S',d['conflict_addrs'],'bound',d['bound_completed']); [print(' ',v['key'],v['msg'][:260]) for v in d['violations'][:3]]"
