#!/usr/bin/env python3
"""seed_meta.py <name> <property> <round> <file:function> <needs> <try,comma,separated> -- writes seeded/<name>/meta.json"""
import json, sys
name, prop, rnd, fil, needs, tr = sys.argv[1:7]
json.dump({"property": prop, "needs": needs, "file": fil, "round": int(rnd),
           "source": "independent sub-agent (told every function touched by earlier seeded changes, for any property)",
           "confirmed": "tools/seed_confirm.sh: scratch worktree of /repo HEAD; suite passes with the change; demo exits 0 clean / non-zero mutated",
           "detected_by": [], "try": tr.split(",")}, open(f"/verif/seeded/{name}/meta.json", "w"), indent=1)
