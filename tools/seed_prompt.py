#!/usr/bin/env python3
"""seed_prompt.py <batch-dir> <out-dir> [ids...] -- writes <out-dir>/<Cxx>/prompt.txt for the sub-agents that produce seeded changes.
Each agent gets only the property text, a scratch worktree (<batch-dir>/<Cxx>) and the list of functions that earlier seeded
changes touched (so that it picks another mechanism). Nothing from /verif is shown to it.
(Before launching the agents: mkdir -p /tmp/mutkit && cp /verif/tools/run_suite.sh /tmp/mutkit/ -- the prompt points the agents there.)"""
import json, os, sys, glob

TEMPLATE = '''You are helping to evaluate a verification effort for the C memory allocator mimalloc (v2.2.3). Your job is to play the role of a developer who introduces a subtle, realistic bug.

You have your own scratch git worktree of the mimalloc repository at {W} (work ONLY there and in {O}; do not touch /repo, /verif or any other directory, and do not look at /verif).

The property that your change must BREAK:

  Title: {title}
  Statement: {statement}
  Quantified over: {quant}

Changes of this kind were already made (for this or for other properties) in the following functions: {prevtxt}. Do NOT touch any of those functions -- pick a DIFFERENT function that this property also depends on. Think broadly and prefer places nobody would look at first: which other helpers, flags, counters, size computations, bit operations, list manipulations, option look-ups, boundary conditions, error paths or orderings does the property rely on? The change must really break THIS property (not merely some other behaviour).

Task: make ONE small, realistic source change to mimalloc (under {W}/src or {W}/include) that breaks this property, while
  (a) the library still compiles without new errors, and
  (b) mimalloc's own existing test suite still passes completely. Run it with:  /tmp/mutkit/run_suite.sh {W}   (configures with cmake+ninja into {W}/_build, builds, and runs ctest: test-api, test-api-fill, test-stress, test-stress-dynamic; takes under a minute, possibly a few minutes when the machine is busy). All 4 ctest entries must pass and test-api/test-api-fill must report 0 failed sub-tests. Run it at least twice, since test-stress is multi-threaded.
The change must be the kind of mistake a maintainer could plausibly make (an off-by-one, a wrong comparison, a dropped step, a wrong memory-order/atomicity assumption, a stale read, a missing re-check, a mis-computed size...), not something absurd, and it must NOT be exposed at once by ordinary use: it should need something specific to manifest -- a particular thread interleaving, an OS call failing at a particular point, a multi-step sequence of operations, an unusual input/size/alignment/option value, or two cooperating sites that each look fine alone. Do not add new files to the library, do not change the tests, do not change build files.

Then write a demonstration: a small self-contained C program at {O}/demo.c that uses mimalloc's public API (compile it together with {W}/src/static.c, e.g. `gcc -O1 -g -I{W}/include demo.c {W}/src/static.c -lpthread -o demo`) and that FAILS (non-zero exit) with your change and PASSES (exit 0) on the unmodified source (to test the unmodified source: `git -C {W} diff > {O}/p.diff; git -C {W} apply -R {O}/p.diff; ...; git -C {W} apply {O}/p.diff` -- do NOT use `git stash`, the stash is shared between worktrees). If the bug needs a specific thread interleaving, the demo may force it with sleeps, barriers, or by calling internal functions in a chosen order, or it may loop many times; say how reliably it fails. If it needs an OS failure, the demo may interpose mmap/mprotect/madvise etc. If it needs options, set MIMALLOC_* environment variables or mi_option_set. If the property is about a special build (secure MI_SECURE=4 / debug MI_DEBUG / override MI_MALLOC_OVERRIDE), the demo's build command may add the -D flags; say so at the top of demo.c. The demo must be built with the single gcc command given at its top (demo.c + src/static.c; do not #include static.c from demo.c).

Deliverables, all under {O}/ :
  - patch.diff   : output of `git -C {W} diff` (source change only; no build output)
  - demo.c : the demonstration, with the exact build+run command in a comment at the top
  - notes.md     : 5-15 lines: what the change is, why it breaks the property, what specific circumstance is needed for it to manifest, why the existing tests do not notice, output of the suite run (pass), output of the demo with and without the change.
Leave the worktree with your change applied (uncommitted). Do not commit. When you are done, reply with a short summary (which file/function you changed, and what it needs to manifest). Work autonomously; do not ask questions. Keep the change minimal (ideally 1-5 lines).

Note: the repository in your worktree already contains a few recent commits whose messages start with 'fix:' -- leave those alone (do not revert them); your change must be something new.
'''

def main():
    wbase, obase = sys.argv[1], sys.argv[2]
    ids = sys.argv[3:]
    props = {}
    for l in open('/verif/properties.jsonl'):
        d = json.loads(l); props[d['id']] = d
    prev = sorted(set(json.load(open(m)).get('file', '?') for m in glob.glob('/verif/seeded/*/meta.json')))
    for pid in (ids or sorted(props)):
        p = props[pid]; W = f'{wbase}/{pid}'; O = f'{obase}/{pid}'
        os.makedirs(O, exist_ok=True)
        open(O + '/prompt.txt', 'w').write(TEMPLATE.format(W=W, O=O, title=p['title'], statement=p['statement'], quant=p['quantifier']['text'], prevtxt='; '.join(prev)))
    print(len(prev), 'earlier functions listed')

if __name__ == '__main__':
    main()
