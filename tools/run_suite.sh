#!/bin/sh
# usage: run_suite.sh <worktree>   -- configure, build and run mimalloc's own test suite (61 tests) in <worktree>/_build
WT=$1
set -e
cmake -G Ninja -S "$WT" -B "$WT/_build" -DCMAKE_BUILD_TYPE=RelWithDebInfo >/dev/null
cmake --build "$WT/_build" 2>&1 | tail -3
cd "$WT/_build"
ctest -j4 --timeout 900 2>&1 | tail -12
# test-api / test-api-fill print one line per sub-test; show failures if any
for t in mimalloc-test-api mimalloc-test-api-fill; do ./$t 2>&1 | grep -i "fail" | head -5 || true; done
