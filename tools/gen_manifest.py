#!/usr/bin/env python3
"""Generates MANIFEST.json from checks/props.py (single source of truth for what is claimed)."""
import json, os, sys
sys.path.insert(0, os.path.join(os.path.dirname(__file__), "..", "checks"))
import props
ALL = [f"C{i:02d}" for i in range(1, 21)]
man = {
  "version": 1,
  "setup_cmd": "make -C /verif",
  "hooks": {
    "guard": "VF_SCHED / verif_pre.h (command-line only: gcc -include /verif/engine/verif_pre.h; no source change in /repo)",
    "enable": "./build.sh compiles harness/<h>.c, which #includes <repo>/src/static.c, with -include engine/verif_pre.h (renames OS calls to the shim; with -DVF_SCHED also routes C11 atomics, pthread_mutex_* and _mm_pause through the scheduler)",
    "baseline_off_cmd": "cmake -G Ninja -S /repo -B /repo/_build -DCMAKE_BUILD_TYPE=RelWithDebInfo && cmake --build /repo/_build && ctest --test-dir /repo/_build -j8 --timeout 900",
    "source_commits": [],
    "add_only": True
  },
  "engines": [
    {"name": "seq-explorer", "path": "engine/vf_harness.h", "serves_properties": ["C01","C03","C04","C05","C10","C12","C13","C15","C17"], "kind_free_text": "bounded exhaustive DFS over API operation sequences; every node is a forked process of the real allocator checked against a reference model"},
    {"name": "os-shim", "path": "engine/vf_os.c", "serves_properties": ["C07","C11","C13","C15","C18"], "kind_free_text": "interposed mmap/munmap/mprotect/madvise/clock/getrandom with mapping shadow, call log and fault plans"},
    {"name": "schedule-explorer", "path": "engine/vf_sched.c", "serves_properties": ["C02","C08","C09","C10","C14"], "kind_free_text": "token-passing scheduler over every atomic/lock/yield point; preemption-bounded exhaustive enumeration of interleavings of real threads"}
  ],
  "checks": [],
  "not_applicable": [],
  "notes": "All checks are bounded exhaustive explorations of the real implementation (see DESIGN.md). ./check <ID> --tier quick|thorough; replay with ./check <ID> --replay <file>."
}
for pid in ALL:
    P = props.PROPS.get(pid)
    if P is None or not P.get("claimed", True):
        man["not_applicable"].append({"property_id": pid, "reason": (P or {}).get("na_reason", "check not built yet in this round (planned in DESIGN.md section 4); not claimed until it exists and passes on the unchanged tree")})
        continue
    man["checks"].append({
        "property_id": pid,
        "quick_cmd": f"./check {pid} --tier quick",
        "thorough_cmd": f"./check {pid} --tier thorough",
        "evidence_file": f"evidence/{pid}.json",
        "replay_cmd_template": f"./check {pid} --replay {{path}}",
        "engine": P.get("engine", "seq-explorer"),
        "level_claimed": {"category": P["level"], "text": P["text"], "design_ref": f"DESIGN.md section 4 / {pid}"},
        "level_note": P["note"],
        "technique": P["technique"],
    })
json.dump(man, open(os.path.join(os.path.dirname(__file__), "..", "MANIFEST.json"), "w"), indent=1)
print("claimed:", [c["property_id"] for c in man["checks"]])
