#!/usr/bin/env python3
"""seed_matrix.py [names...] -- runs the quick checks against every confirmed seeded change (in scratch copies of /repo,
selected through VERIF_REPO, results in a scratch VERIF_OUT) and records in seeded/<name>/meta.json which checks detect it."""
import os, sys, json, subprocess, shutil, concurrent.futures as cf
V = os.environ.get("VERIF_HOME", "/verif")     # (a snapshot copy of /verif can be used so that the harnesses may be edited meanwhile)
# which checks to try per property (the property's own check first)
ALSO = {"C01": ["C01", "C03"], "C02": ["C02", "C09"], "C08": ["C08", "C02"], "C10": ["C10", "C08"], "C13": ["C13", "C14"], "C09": ["C09"], "C12": ["C12"], "C11": ["C11"], "C07": ["C07"]}
def run_seed(name):
    d = os.path.join(V, "seeded", name); meta = json.load(open(os.path.join(d, "meta.json")))
    prop = meta["property"]
    scratch = f"/tmp/seedrepo/{name}"; out = f"/tmp/seedout/{name}"
    shutil.rmtree(scratch, ignore_errors=True); shutil.rmtree(out, ignore_errors=True); os.makedirs(scratch); os.makedirs(out)
    for sub in ("src", "include", "test"): shutil.copytree(os.path.join("/repo", sub), os.path.join(scratch, sub))
    r = subprocess.run(["patch", "-p1", "-s", "-d", scratch, "-i", os.path.join(d, "patch.diff")], stdout=subprocess.PIPE, stderr=subprocess.STDOUT, text=True)
    if r.returncode != 0: return name, {"error": "patch does not apply to the current tree: " + r.stdout[-300:]}
    res = {}
    for c in meta.get("try") or ALSO.get(prop, [prop]):
        env = dict(os.environ, VERIF_REPO=scratch, VERIF_OUT=out)
        p = subprocess.run([os.path.join(V, "check"), c, "--tier", "quick"], env=env, stdout=subprocess.PIPE, stderr=subprocess.STDOUT, text=True, cwd=V)
        lines = [l for l in p.stdout.splitlines() if l.startswith("VIOLATION") or l.startswith("  C")]
        res[c] = {"exit": p.returncode, "first": (lines[1].strip()[:300] if len(lines) > 1 else (lines[0][:300] if lines else ""))}
    shutil.rmtree(scratch, ignore_errors=True); shutil.rmtree(out, ignore_errors=True)
    meta["detected_by"] = [c for c, v in res.items() if v["exit"] == 1]
    meta["check_results"] = res
    json.dump(meta, open(os.path.join(d, "meta.json"), "w"), indent=1)
    return name, res
names = sys.argv[1:] or sorted(os.listdir(os.path.join(V, "seeded")))
with cf.ThreadPoolExecutor(max_workers=2) as ex:
    for name, res in ex.map(run_seed, names):
        print(name, {c: v.get("exit") if isinstance(v, dict) else v for c, v in res.items()} if "error" not in res else res)
