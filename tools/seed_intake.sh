#!/bin/bash
# usage: seed_intake.sh <Cxx> <name>   (SRCBASE / MUTBASE as for seed_confirm.sh)
# Derives the demo's compiler flags (-O/-g/-D/-f options) from the gcc command in the header of demo.c and confirms the change.
C=$1; NAME=$2; SRC=${SRCBASE:-/tmp/mut_out}/$C
FL=$(grep -m1 -o 'gcc [^`]*' $SRC/demo.c | tr ' ' '\n' | grep -E '^-(O|g|D|f)' | grep -v '^-o$' | tr '\n' ' ')
[ -z "$FL" ] && FL="-O1 -g"
if grep -q '#include *"[^"]*static.c"' $SRC/demo.c; then export NOSTATIC=1; else unset NOSTATIC; fi
echo "flags: $FL ${NOSTATIC:+(demo includes static.c)}"
$(dirname $0)/seed_confirm.sh $C $NAME "$FL" 2>&1 | tail -2
